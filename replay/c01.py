"""C01/C16 native replay: one emu-sv step against exp(-i dt H) psi / the Lindblad generator, and the
numbers SVBackendImpl._evolve_step hands to the stepper."""
import os, random, sys
import torch
HERE = os.path.dirname(os.path.abspath(__file__))
sys.path.insert(0, HERE)


def dense_h(om, de, ph, U):
    n = len(om)
    d = 2 ** n
    H = torch.zeros(d, d, dtype=torch.complex128)
    sx = torch.tensor([[0, 1], [1, 0]], dtype=torch.complex128)
    sy = torch.tensor([[0, -1j], [1j, 0]], dtype=torch.complex128)
    nn = torch.tensor([[0, 0], [0, 1]], dtype=torch.complex128)
    I2 = torch.eye(2, dtype=torch.complex128)

    def kron(ops):
        out = torch.ones(1, 1, dtype=torch.complex128)
        for o in ops:
            out = torch.kron(out, o)
        return out
    for q in range(n):
        loc = 0.5 * om[q] * (torch.cos(ph[q]) * sx + torch.sin(ph[q]) * sy) - de[q] * nn   # emulator basis (g, r)
        H += kron([loc if k == q else I2 for k in range(n)])
        for r in range(q + 1, n):
            H += U[q, r] * kron([nn if k in (q, r) else I2 for k in range(n)])
    return H


def ownership():
    """the evolving state must not share storage with the configured initial state: after a run the
    user's initial state is unchanged and a second run from the same backend gives the same results"""
    from native_util import patch_pulser_observable, make_sequence_data
    patch_pulser_observable()
    from emu_sv import SVConfig, StateVector, DensityMatrix
    from emu_sv.sv_backend_impl import SVBackendImpl
    L = torch.zeros(2, 2, dtype=torch.complex128)
    L[0, 1] = 0.4
    for noisy in (False, True):
        n = 2
        if noisy:
            rho = torch.diag(torch.tensor([0.4, 0.3, 0.2, 0.1], dtype=torch.complex128))
            init = DensityMatrix(rho.clone(), gpu=False)
        else:
            psi = torch.tensor([0.5, 0.5j, -0.5, 0.5], dtype=torch.complex128) * 3.0     # deliberately unnormalised
            init = StateVector(psi.clone(), gpu=False)
        before = init.data.clone()
        data = make_sequence_data(n, 3, omega=(torch.ones(3, n, dtype=torch.complex128) * 2.0),
                                  lindblad_ops=[L] if noisy else None)
        cfg = SVConfig(observables=[], gpu=False, krylov_tolerance=1e-9, log_level=50, initial_state=init)
        impl = SVBackendImpl(cfg, data)
        shared = impl.state.data.data_ptr() == cfg.initial_state.data.data_ptr()
        for k in range(2):
            impl._evolve_step(impl.target_times[k + 1] - impl.target_times[k], k)
        changed = not torch.equal(cfg.initial_state.data, before)
        if shared or changed:
            print(f"REPRODUCED: SVBackendImpl({'density matrix' if noisy else 'state vector'} initial state): the evolving "
                  f"state {'shares' if shared else 'does not share'} storage with config.initial_state.data; after two steps "
                  f"the configured initial state {'CHANGED' if changed else 'is unchanged'} "
                  f"(max |after - before| = {(cfg.initial_state.data - before).abs().max().item():.3g})")
            return 1
    return 0


def main():
    if len(sys.argv) > 1 and os.path.exists(sys.argv[1]) and "SVBackendImpl.__init__" in open(sys.argv[1]).read(3000):
        rc = ownership()
        if rc == 0:
            print("NOT-REPRODUCED: the configured initial state is neither shared nor modified by the run")
        return rc
    from emu_sv.time_evolution import EvolveStateVector
    rnd = random.Random(int(os.environ.get("VERIF_SEED", "0")))
    torch.manual_seed(0)
    for t in range(90):
        n = rnd.randint(1, 3)
        om = torch.rand(n, dtype=torch.float64) * 5
        de = torch.rand(n, dtype=torch.float64) * 4 - 2
        ph = torch.rand(n, dtype=torch.float64) * rnd.choice([0.0, 3.0])
        if t % 5 == 2:
            # corner phases (sin or cos vanish): the same on all atoms, or mixed with zero (an SLM-masked atom)
            import math
            corner = [math.pi, -math.pi, math.pi / 2, -math.pi / 2, 2 * math.pi, 3 * math.pi][(t // 5) % 6]
            ph = torch.full((n,), corner, dtype=torch.float64)
            if (t // 5) % 2 and n > 1:
                ph[rnd.randrange(n)] = 0.0
        # boundary families: a delay (no drive at all, the interaction still acts), amplitude only,
        # detuning only, one idle atom
        fam = t % 6
        if fam == 1:
            om, de = om * 0, de * 0
            n_fam = "delay: omega = delta = 0"
        elif fam == 2:
            om = om * 0
        elif fam == 3:
            de = de * 0
        elif fam == 4 and n > 1:
            om[0] = 0
            de[0] = 0
        U = torch.rand(n, n, dtype=torch.float64) * 3
        U = (U + U.T) / 2
        U.fill_diagonal_(0)
        psi = torch.randn(2 ** n, dtype=torch.complex128)
        psi /= psi.norm()
        dt = rnd.choice([0.01, 0.1, 0.5])
        out, _ = EvolveStateVector.evolve(dt, om.to(torch.complex128), de.to(torch.complex128),
                                          ph.to(torch.complex128), U, psi.clone(), 1e-10, [])
        ref = torch.linalg.matrix_exp(-1j * dt * dense_h(om, de, ph, U)) @ psi
        if (out - ref).norm() > 1e-6:
            print(f"REPRODUCED: n={n} dt={dt} phases={[round(x, 6) for x in ph.tolist()]}: "
                  f"|evolve(psi) - exp(-i dt H) psi| = {(out - ref).norm().item():.3g}")
            return 1
    # a long run of steps whose parameters change very little from one step to the next (a slow detuning ramp),
    # same interaction-matrix object throughout: state kept between steps (a cached diagonal, a reused operator)
    # must not freeze any term -- the product of the steps against the product of dense exponentials
    n = 3
    U = torch.tensor([[0.0, 1.3, 0.4], [1.3, 0.0, 0.9], [0.4, 0.9, 0.0]], dtype=torch.float64)
    om = torch.full((n,), 2.0, dtype=torch.float64)
    ph = torch.zeros(n, dtype=torch.float64)
    psi = torch.zeros(2 ** n, dtype=torch.complex128)
    psi[0] = 1.0
    ref = psi.clone()
    steps, dt_ = 400, 0.005
    for k in range(steps):
        de = torch.full((n,), 100.0 * (1.0 + 2.5e-6 * k), dtype=torch.float64) + torch.tensor([0.0, 0.3, -0.2], dtype=torch.float64)
        psi, _ = EvolveStateVector.evolve(dt_, om.to(torch.complex128), de.to(torch.complex128), ph.to(torch.complex128),
                                          U, psi, 1e-12, [])
        ref = torch.linalg.matrix_exp(-1j * dt_ * dense_h(om, de, ph, U)) @ ref
    # make the slow drift matter: total detuning change 0.1 rad/us over 2 us of evolution
    drift_err = (psi - ref).norm().item()
    if drift_err > 1e-6:
        print(f"REPRODUCED: {steps} consecutive steps with a detuning ramp of relative slope 2.5e-6 per step: "
              f"|product of emu-sv steps - product of exp(-i dt H_k)| = {drift_err:.3g}")
        return 1
    # wiring of _evolve_step
    from native_util import patch_pulser_observable, make_sequence_data
    patch_pulser_observable()
    from emu_sv import SVConfig
    from emu_sv.sv_backend_impl import SVBackendImpl
    data = make_sequence_data(2, 3, omega=(torch.arange(6, dtype=torch.float64).reshape(3, 2) + 1.0).to(torch.complex128))
    data.target_times[:] = [0.0, 7.0, 10.0, 20.0]
    impl = SVBackendImpl(SVConfig(observables=[], gpu=False, krylov_tolerance=1e-9, log_level=50), data)
    seen = {}

    class Spy:
        @staticmethod
        def apply(*a):
            seen["args"] = a
            return a[5], None
    impl.stepper = Spy
    times = []
    orig = impl.interaction_matrix
    impl.interaction_matrix = lambda t: (times.append(t), orig(t))[1]
    impl._evolve_step(3.0, 1)
    a = seen["args"]
    ok = abs(a[0] - 0.003) < 1e-15 and torch.equal(a[1], data.omega[1]) and times == [7.0] and a[6] == 1e-9
    if not ok:
        print(f"REPRODUCED: _evolve_step(3.0, 1) handed dt={a[0]}, omega={a[1].tolist()}, matrix time {times}, tol={a[6]}")
        return 1
    print("NOT-REPRODUCED: 90 single steps (random, delays, amplitude-only, detuning-only, idle atom) match exp(-i dt H) psi; _evolve_step wiring as specified")
    return 0


if __name__ == "__main__":
    sys.exit(main())
