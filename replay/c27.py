"""C27 native replay: crash injection at every file-system effect of save_simulation."""
import json, os, pickle, sys, tempfile, shutil
HERE = os.path.dirname(os.path.abspath(__file__))
sys.path.insert(0, HERE)


class Crash(BaseException):
    pass


def os_view(d):
    """directory contents as the operating system sees them right now"""
    out = {}
    for fn in os.listdir(d):
        with open(os.path.join(d, fn), "rb") as f:
            out[fn] = f.read()
    return out


def main():
    # the advertised name is whatever path the run was started / resumed with: the default <uuid>.dat and a
    # snapshot that was renamed before resuming (MPSBackend.resume sets impl.autosave_file to the given path)
    for advertised in (None, "checkpoint.pkl", "state"):
        rc = scenario(advertised)
        if rc:
            return rc
    print("NOT-REPRODUCED: the advertised autosave stayed loadable at every injected crash point; resume works from every "
          "crash-consistent directory (truncated / empty / complete temporaries); advertised names: default .dat, "
          "checkpoint.pkl, a name without suffix")
    return 0


def scenario(advertised):
    import torch
    from native_util import patch_pulser_observable, make_sequence_data
    if patch_pulser_observable():
        print("harness: pulser Observable.__init__ wrapped to supply default_aggregation_method (C31)")
    from emu_mps import MPSConfig, MPSBackend
    from emu_mps.mps_backend_impl import MPSBackendImpl
    import emu_mps.mps_backend_impl as M
    work = tempfile.mkdtemp(prefix="c27_")
    cwd = os.getcwd()
    os.chdir(work)
    try:
        cfg = MPSConfig(autosave_dt=11, observables=[], optimize_qubit_ordering=False)
        impl = MPSBackendImpl(cfg, make_sequence_data(3, 3))
        impl.init()
        if advertised is not None:
            import pathlib
            impl.autosave_file = pathlib.Path(work) / advertised
        impl.last_save_time = -1e18
        impl.save_simulation()                      # first autosave completes
        adv = impl.autosave_file
        if not adv.is_file():
            print(f"REPRODUCED: advertised autosave name '{adv.name}': after a COMPLETED save_simulation() no file exists under "
                  f"the advertised name; the directory holds {sorted(os.listdir(work))}")
            return 1
        # ---- the reader: every directory state a crashed autosave can leave behind must be resumable -------
        good = adv.read_bytes()
        leftovers = [("no temporaries", {}),
                     ("a truncated .new (crash inside pickle.dump)", {".new": good[: len(good) // 2]}),
                     ("a one-byte .new", {".new": good[:1]}),
                     ("an empty .new (crash right after open)", {".new": b""}),
                     ("a complete .new (crash before the rename)", {".new": good}),
                     ("a truncated .bak", {".bak": good[: len(good) // 3]}),
                     ("truncated .new and .bak", {".new": good[:7], ".bak": good[:11]})]
        for label, files in leftovers:
            for fn in os.listdir(work):
                os.remove(os.path.join(work, fn))
            adv.write_bytes(good)
            for suf, data in files.items():
                adv.with_suffix(suf).write_bytes(data)
            try:
                res = MPSBackend.resume(adv)
            except Exception as e:
                print(f"REPRODUCED: MPSBackend.resume from a crash-consistent directory (complete advertised autosave, "
                      f"{label}) fails with {type(e).__name__}: {e}; directory now holds "
                      f"{sorted((f, os.path.getsize(os.path.join(work, f))) for f in os.listdir(work))}")
                return 1
        for fn in os.listdir(work):
            os.remove(os.path.join(work, fn))
        impl.last_save_time = -1e18
        impl.save_simulation()
        names = ["rename", "replace", "remove"]
        orig = {n: getattr(os, n) for n in names}
        orig_dump = pickle.dump
        bad = None
        for crash_at in range(0, 12):
            for when in ("before", "after"):
                count = {"n": 0}
                snap = {}

                def wrap(fn, label):
                    def w(*a, **k):
                        if count.get("depth", 0) > 0:      # nested pickle.dump of tensors
                            return fn(*a, **k)
                        count["n"] += 1
                        me = count["n"]
                        if me == crash_at and when == "before":
                            snap["files"] = os_view(work)
                            raise Crash(label)
                        count["depth"] = count.get("depth", 0) + 1
                        try:
                            r = fn(*a, **k)
                        finally:
                            count["depth"] -= 1
                        if me == crash_at and when == "after":
                            snap["files"] = os_view(work)
                            raise Crash(label)
                        return r
                    return w
                for n in names:
                    setattr(M.os, n, wrap(orig[n], n))
                M.pickle.dump = wrap(orig_dump, "dump")
                impl.last_save_time = -1e18
                crashed = None
                try:
                    impl.save_simulation()
                except Crash as c:
                    crashed = str(c)
                finally:
                    for n in names:
                        setattr(M.os, n, orig[n])
                    M.pickle.dump = orig_dump
                # what a killed process leaves behind is what the OS had at the crash moment (data
                # still in Python's user-space buffers is lost), not what exception unwinding flushes
                files = snap.get("files") if crashed is not None else os_view(work)
                ok = adv.name in files
                if ok:
                    try:
                        pickle.loads(files[adv.name])
                    except Exception as e:
                        ok = False
                        why = f"not loadable ({len(files[adv.name])} bytes at the crash moment): {type(e).__name__}"
                else:
                    why = "missing"
                if not ok and bad is None:
                    bad = (crash_at, when, crashed, why, sorted(os.listdir(work)))
                if not ok:
                    # restore a good state for the next round
                    for fn in os.listdir(work):
                        os.remove(os.path.join(work, fn))
                    impl.last_save_time = -1e18
                    impl.save_simulation()
                if crashed is None and crash_at > 0:
                    break
            else:
                continue
            if crashed is None:
                break
        if bad:
            print(f"REPRODUCED: crash {bad[1]} effect #{bad[0]} ({bad[2]}) leaves the advertised autosave "
                  f"{bad[3]}; directory then holds {bad[4]}")
            try:
                MPSBackend.resume(adv)
            except Exception as e:
                print(f"  MPSBackend.resume(advertised) -> {type(e).__name__}: {e}")
            return 1
        return 0
    finally:
        os.chdir(cwd)
        shutil.rmtree(work, ignore_errors=True)


if __name__ == "__main__":
    sys.exit(main())
