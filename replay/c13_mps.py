"""C13 (MPS part) native replay / falsifier, run with /venv/bin/python (cwd = repo, PYTHONPATH = repo).

Random NON-canonical, UNNORMALISED matrix product states (norm 0.2 .. 5, bond dimension 1..4, qubits
and qutrits, with and without a declared centre somewhere) against dense definitions:

  MPS.expect_batch(ops)[i, k]        = <psi| ops[k] at site i |psi>
  MPS.get_correlation_matrix()[i,j]  = <psi| n_i n_j |psi>   (n = projector on level 1)
  MPS.entanglement_entropy(b)        = sum_k entr(s_k^2), s = singular values of psi cut after site b
  EntanglementEntropy.apply          same, ValueError outside 0..N-2
  qubit_occupation_mps_impl, correlation_matrix_mps_impl, energy / second moment / variance callbacks
  get_extended_site_index(where, c)  = position of the c-th True of the mask
and after every reader: the dense state is unchanged and the factors are in canonical form with respect to
the declared centre.  Prints `REPRODUCED: ...` (exit 1) on the first failing input, else NOT-REPRODUCED."""
import json, os, random, sys
import torch

dtype = torch.complex128


def dense(factors):
    acc = torch.ones(1, 1, dtype=dtype)
    for f in factors:
        acc = torch.tensordot(acc, f.cpu().to(dtype), dims=1).reshape(-1, f.shape[2])
    return acc.reshape(-1)


def canonical_problem(state):
    c = state.orthogonality_center
    if c is None:
        return None
    for i, f in enumerate(state.factors):
        if i == c:
            continue
        g = torch.tensordot(f.conj(), f, ([0, 1], [0, 1]) if i < c else ([1, 2], [1, 2]))
        if (g - torch.eye(g.shape[0], dtype=g.dtype)).abs().max().item() > 1e-8:
            return f"factor {i} is not {'left' if i < c else 'right'}-orthonormal although the declared centre is {c}"
    return None


def site_op(op, i, n, dim):
    """dense matrix of op acting on site i"""
    m = torch.eye(1, dtype=dtype)
    for q in range(n):
        m = torch.kron(m, op.to(dtype) if q == i else torch.eye(dim, dtype=dtype))
    return m


def random_state(rnd, gen, MPS):
    dim = rnd.choice([2, 2, 3])
    n = rnd.randint(2, 5 if dim == 2 else 4)
    chi = rnd.randint(1, 4)
    dims = [1] + [min(chi, dim ** min(i, n - i)) for i in range(1, n)] + [1]
    fs = [torch.randn(dims[i], dim, dims[i + 1], dtype=dtype, generator=gen) for i in range(n)]
    psi = dense(fs)
    fs[0] = fs[0] / torch.linalg.norm(psi) * rnd.choice([0.2, 1.0, 1.0, 5.0])
    # half of the states carry a bond cap they already saturate (as a run with a small max_bond_dim does): an
    # observable must not truncate anything on the way to its value
    cap = rnd.choice([None, max(dims)])
    st = MPS(fs, eigenstates=("r", "g") if dim == 2 else ("g", "r", "x"), num_gpus_to_use=0,
             **({} if cap is None else {"max_bond_dim": cap}))
    how = rnd.choice(["no centre", "centre", "centre"])
    if how == "centre":
        st.orthogonalize(rnd.randrange(n))
    return st, n, dim, f"N={n} dim={dim} chi={chi} max_bond_dim={cap} |psi|={torch.linalg.norm(dense(st.factors)).item():.3g} {how}={st.orthogonality_center}"


def after(name, st, psi, label):
    now = dense(st.factors)
    tol = 1e-9 * max(1.0, torch.linalg.norm(psi).item())
    if (now - psi).abs().max().item() > tol:
        return f"{name} changed the represented state by {(now - psi).abs().max().item():.2e} [{label}]"
    p = canonical_problem(st)
    if p:
        return f"after {name}: {p} [{label}]"
    return None


def falsify(rnd, gen):
    from emu_mps import MPS, MPO
    import emu_mps.custom_callback_implementations as cb
    from emu_mps.observables import EntanglementEntropy
    from emu_mps.utils import get_extended_site_index
    for t in range(150):
        st, n, dim, label = random_state(rnd, gen, MPS)
        psi = dense(st.factors)
        tol = 1e-9 * max(1.0, (psi.abs() ** 2).sum().item())
        # ---- expect_batch ------------------------------------------------------------------------
        K = rnd.randint(1, 3)
        ops = torch.randn(K, dim, dim, dtype=dtype, generator=gen)
        got = st.expect_batch(ops)
        if tuple(got.shape) != (n, K):
            return f"expect_batch: result shape {tuple(got.shape)} for {n} sites and {K} operators [{label}]"
        for i in range(n):
            for k in range(K):
                want = torch.vdot(psi, site_op(ops[k], i, n, dim) @ psi)
                if abs(got[i, k] - want) > tol:
                    return (f"expect_batch[{i}, {k}] = {complex(got[i, k]):.10g} but <psi|op_{k} at site {i}|psi> = "
                            f"{complex(want):.10g} [{label}]")
        bad = after("expect_batch", st, psi, label)
        if bad:
            return bad
        # ---- occupation callback --------------------------------------------------------------------
        occ = cb.qubit_occupation_mps_impl(None, config=None, state=st, hamiltonian=None)
        nop = torch.zeros(dim, dim, dtype=dtype)
        nop[1, 1] = 1
        for i in range(n):
            want = torch.vdot(psi, site_op(nop, i, n, dim) @ psi).real
            if len(occ) != n or abs(occ[i] - want) > tol:
                return f"qubit_occupation_mps_impl[{i}] = {float(occ[i]):.10g} but <n_{i}> = {float(want):.10g} [{label}]"
        # ---- correlation matrix ----------------------------------------------------------------------
        st2, n2, dim2, label2 = st, n, dim, label
        cm = rnd.choice([st2.get_correlation_matrix, lambda: cb.correlation_matrix_mps_impl(
            None, config=None, state=st2, hamiltonian=None)])()
        for i in range(n):
            for j in range(n):
                want = torch.vdot(psi, site_op(nop, i, n, dim) @ (site_op(nop, j, n, dim) @ psi)).real
                if abs(cm[i, j] - want) > tol:
                    return (f"correlation matrix [{i}, {j}] = {complex(cm[i, j]):.10g} but <n_{i} n_{j}> = "
                            f"{float(want):.10g} [{label}]")
        bad = after("get_correlation_matrix", st, psi, label)
        if bad:
            return bad
        # ---- entanglement entropy ----------------------------------------------------------------------
        b = rnd.randrange(n - 1)
        got = rnd.choice([lambda: st.entanglement_entropy(b), lambda: EntanglementEntropy(b).apply(state=st)])()
        s = torch.linalg.svdvals(psi.reshape(dim ** (b + 1), -1))
        want = torch.special.entr(s ** 2).sum()
        if abs(got - want) > 1e-8 * max(1.0, abs(want.item())):
            return f"entanglement_entropy({b}) = {float(got):.10g} but the cut after site {b} has {float(want):.10g} [{label}]"
        bad = after("entanglement_entropy", st, psi, label)
        if bad:
            return bad
        for bad_b in (-1, n - 1):
            try:
                EntanglementEntropy(bad_b).apply(state=st)
                return f"EntanglementEntropy({bad_b}).apply accepted a bond outside 0..{n - 2} [{label}]"
            except ValueError:
                pass
        # ---- energies -------------------------------------------------------------------------------------
        if dim == 2 and t % 3 == 0:
            hs = []
            for _ in range(n):
                a = torch.randn(dim, dim, dtype=dtype, generator=gen)
                hs.append((a + a.conj().T) / 2)
            H = MPO([h.reshape(1, dim, dim, 1).clone() for h in hs], num_gpus_to_use=0)
            Hd = torch.eye(1, dtype=dtype)
            for h in hs:
                Hd = torch.kron(Hd, h)
            if n >= 2 and t % 2 == 0:
                # an ENTANGLING Hamiltonian sum_i h_i + sum_i n_i n_{i+1} (MPO bond dimension 3): H|psi> needs a larger
                # bond than psi, so an implementation that compresses H|psi> to the state's bond cap loses weight
                I2 = torch.eye(dim, dtype=dtype)
                nn = torch.zeros(dim, dim, dtype=dtype)
                nn[1, 1] = 1.0
                fac = []
                for k, h in enumerate(hs):
                    W = torch.zeros(3, dim, dim, 3, dtype=dtype)
                    W[0, :, :, 0] = I2
                    W[1, :, :, 0] = nn
                    W[2, :, :, 0] = h
                    W[2, :, :, 1] = nn
                    W[2, :, :, 2] = I2
                    if k == 0:
                        W = W[2:3]
                    if k == n - 1:
                        W = W[..., 0:1]
                    fac.append(W.clone())
                H = MPO(fac, num_gpus_to_use=0)

                def emb(op, k):
                    out = torch.eye(1, dtype=dtype)
                    for j in range(n):
                        out = torch.kron(out, op if j == k else I2)
                    return out
                Hd = sum(emb(h, k) for k, h in enumerate(hs)) + sum(emb(nn, k) @ emb(nn, k + 1) for k in range(n - 1))
            e = torch.vdot(psi, Hd @ psi).real
            e2 = torch.vdot(psi, Hd @ (Hd @ psi)).real
            etol = 1e-7 * max(1.0, abs(e2.item()))
            got = cb.energy_mps_impl(None, config=None, state=st, hamiltonian=H)
            if abs(got - e) > etol:
                return f"energy_mps_impl = {float(got):.10g} but <psi|H|psi> = {float(e):.10g} [{label}]"
            got = cb.energy_second_moment_mps_impl(None, config=None, state=st, hamiltonian=H)
            if abs(got - e2) > etol:
                return f"energy_second_moment_mps_impl = {float(got):.10g} but <psi|H^2|psi> = {float(e2):.10g} [{label}]"
            got = cb.energy_variance_mps_impl(None, config=None, state=st, hamiltonian=H)
            if abs(got - (e2 - e * e)) > etol * max(1.0, abs(e.item())):
                return f"energy_variance_mps_impl = {float(got):.10g} but <H^2> - <H>^2 = {float(e2 - e * e):.10g} [{label}]"
    # ---- get_extended_site_index ----------------------------------------------------------------------------
    for t in range(400):
        m = rnd.randint(0, 7)
        where = torch.tensor([rnd.random() < 0.6 for _ in range(m)], dtype=torch.bool)
        trues = [i for i in range(m) if where[i]]
        c = rnd.choice([None, -1, 0, 1, 2, len(trues) - 1, len(trues), rnd.randint(0, 7)])
        try:
            got = get_extended_site_index(where, c)
        except ValueError:
            if c is not None and 0 <= c < len(trues):
                return f"get_extended_site_index({where.tolist()}, {c}) raised ValueError"
            continue
        want = None if c is None else (trues[c] if 0 <= c < len(trues) else "ValueError")
        if got != want:
            return f"get_extended_site_index({where.tolist()}, {c}) = {got}, expected {want}"
    return None


def fill_results_normalised():
    """MPSBackendImpl.fill_results hands every due observable a NORMALISED state -- also when badly prepared
    atoms are padded back in and the trajectory's norm has decayed (noisy runs between jumps)"""
    sys.path.insert(0, os.path.dirname(os.path.abspath(__file__)))
    from native_util import patch_pulser_observable, make_sequence_data
    patch_pulser_observable()
    from emu_mps import MPSConfig
    import emu_mps.mps_backend_impl as M
    from pulser.backend import Observable
    seen = []

    class Spy(Observable):
        @property
        def _base_tag(self):
            return "norm_probe"

        def apply(self, *, state, **kw):
            seen.append(float(state.norm()))
            return float(state.norm())
    for bad in (None, [False, True, False, False], [True, False, False, True]):
        seen.clear()
        n = 4
        sd = make_sequence_data(n, 3, bad_atoms=bad, state_prep_error=0.1 if bad else 0.0)
        cfg = MPSConfig(observables=[Spy(evaluation_times=[1.0 / 3, 2.0 / 3, 1.0])], log_level=50, optimize_qubit_ordering=False)
        impl = M.create_impl(sd, cfg)
        impl.init()
        while not impl.is_finished():
            impl.progress()
            if impl.state is not None:
                # what a noisy trajectory looks like between two jumps: the stored state has norm < 1
                impl.state.factors[0] = impl.state.factors[0] * 0.8
        wrong = [x for x in seen if abs(x - 1.0) > 1e-9]
        if not seen or wrong:
            return (f"fill_results with bad atoms {bad}: observables were evaluated {len(seen)} times on states of norm "
                    f"{[round(x, 6) for x in seen]} (must be 1: each observable is defined on the normalised state)")
    return None


def entropy_with_zero_schmidt_values():
    """bonds with exactly zero Schmidt values (zero-padded / direct-sum MPS): 0 log 0 = 0, the entropy is finite
    and equals the dense value"""
    import math
    from emu_mps import MPS
    dtc = torch.complex128
    # product state |r r r> with bond dimension 2, second channel identically zero
    f = []
    for k in range(3):
        t = torch.zeros(1 if k == 0 else 2, 2, 1 if k == 2 else 2, dtype=dtc)
        t[0, 1, 0] = 1.0
        f.append(t)
    st = MPS([t.clone() for t in f], eigenstates=("r", "g"), num_gpus_to_use=0)
    for site in (0, 1):
        e = float(st.entanglement_entropy(site))
        if not math.isfinite(e) or abs(e) > 1e-9:
            return f"product state with a zero-padded bond: entanglement_entropy({site}) = {e} (dense value 0)"
    # (|rrr> + |ggg>)/sqrt(2) embedded in bond dimension 3 with an unused channel: log 2 at every cut
    g = []
    for k in range(3):
        t = torch.zeros(1 if k == 0 else 3, 2, 1 if k == 2 else 3, dtype=dtc)
        for b in range(2):
            t[0 if k == 0 else b, b, 0 if k == 2 else b] = 1.0
        g.append(t)
    g[0] = g[0] / math.sqrt(2)
    st = MPS([t.clone() for t in g], eigenstates=("r", "g"), num_gpus_to_use=0)
    for site in (0, 1):
        e = float(st.entanglement_entropy(site))
        if not math.isfinite(e) or abs(e - math.log(2)) > 1e-9:
            return f"GHZ state with an unused bond channel: entanglement_entropy({site}) = {e} (dense value log 2 = {math.log(2):.6f})"
    return None


def main():
    bad1 = entropy_with_zero_schmidt_values()
    if bad1:
        print("REPRODUCED: " + bad1)
        return 1
    bad0 = fill_results_normalised()
    if bad0:
        print("REPRODUCED: " + bad0)
        return 1
    seed = int(os.environ.get("VERIF_SEED", "0"))
    rnd = random.Random(seed)
    torch.manual_seed(seed)
    torch.set_num_threads(1)
    gen = torch.Generator().manual_seed(20260923 + seed)
    try:
        bad = falsify(rnd, gen)
    except Exception as e:
        import traceback
        traceback.print_exc()
        print(f"REPRODUCED: unexpected {type(e).__name__}: {e}")
        return 1
    if bad:
        print("REPRODUCED: " + bad)
        return 1
    print("NOT-REPRODUCED: random non-canonical unnormalised MPS: expect_batch, occupation, correlation matrix, "
          "entanglement entropy, energy callbacks and the extended centre index agree with the dense definitions; "
          "state and declared centre truthful after every reader")
    return 0


if __name__ == "__main__":
    sys.exit(main())
