"""C22 native replay: _extract_omega_delta_phi on concrete samples -- wiring and non-negativity."""
import json, os, random, sys
import numpy as np
import torch


class FakeSamples:
    def __init__(self, sig, basis="ground-rydberg"):
        self.sig, self.basis = sig, basis
        self.max_duration = len(next(iter(sig.values()))["amp"])

    def to_nested_dict(self, all_local=True, samples_type="tensor"):
        return {"Local": {self.basis: {q: {k: torch.tensor(v, dtype=torch.float64) for k, v in d.items()}
                                       for q, d in self.sig.items()}}}


def main():
    from emu_base.pulser_adapter import _extract_omega_delta_phi
    from scipy.interpolate import PchipInterpolator
    rnd = random.Random(int(os.environ.get("VERIF_SEED", "0")))
    cases = [([0., 4., 6., 5., 3., 0.2], [0., 1., 2., 3., 4., 5., 5.25, 5.5, 5.75, 6.])]
    for _ in range(200):
        D = rnd.randint(2, 8)
        amp = [rnd.choice([0., rnd.uniform(0, 6)]) for _ in range(D)]
        pts = sorted({0.0, float(D)} | {round(rnd.uniform(0, D), 2) for _ in range(rnd.randint(1, 8))})
        cases.append((amp, pts))
    for amp, times in cases:
        D = len(amp)
        sig = {"q0": {"amp": amp, "det": [float(i) for i in range(D)], "phase": [0.5] * D},
               "q1": {"amp": list(reversed(amp)), "det": [1.0] * D, "phase": [float(-i) for i in range(D)]}}
        om, de, ph = _extract_omega_delta_phi(FakeSamples(sig), ("q0", "q1"), times)
        mid = 0.5 * (np.array(times[:-1]) + np.array(times[1:]))
        for qi, q in enumerate(("q0", "q1")):
            if (om[:, qi].real < -1e-12).any():
                k = int(torch.argmin(om[:, qi].real))
                print(f"REPRODUCED: amplitude samples {sig[q]['amp']} (all >= 0), target times {times}: "
                      f"omega at step {k} (midpoint {mid[k]}) = {om[k, qi].real.item():.4g} < 0")
                return 1
            for arr, name in ((de, "det"), (ph, "phase")):
                ref = PchipInterpolator(np.arange(D, dtype=float), np.array(sig[q][name]), extrapolate=True)(mid)
                if not np.allclose(arr[:, qi].real.numpy(), ref, atol=1e-9):
                    print(f"REPRODUCED: {name} of {q} differs from the PCHIP interpolation at the midpoints: "
                          f"{arr[:, qi].real.tolist()} vs {ref.tolist()}")
                    return 1
    # column order: column i belongs to qubit_ids[i] (register order), whatever the labels' sort order and whatever
    # the order of the sample dictionary
    for ids in (("probe", "control", "target", "ancilla", "bus"), ("q10", "q2", "q1"), (3, 0, 2, 1), ("b", "a")):
        D = 5
        times = [0., 1., 2.5, 4., 5.]
        mid = 0.5 * (np.array(times[:-1]) + np.array(times[1:]))
        per = {q: {"amp": [0.5 + 0.7 * k + 0.1 * t for t in range(D)], "det": [float(k) - 0.3 * t for t in range(D)],
                   "phase": [0.2 * (k + 1)] * D} for k, q in enumerate(ids)}
        for order in (list(ids), sorted(ids, key=str), list(reversed(ids))):
            sig = {q: per[q] for q in order}
            om, de, ph = _extract_omega_delta_phi(FakeSamples(sig), tuple(ids), times)
            for qi, q in enumerate(ids):
                for arr, name in ((om, "amp"), (de, "det"), (ph, "phase")):
                    ref = PchipInterpolator(np.arange(D, dtype=float), np.array(per[q][name]), extrapolate=True)(mid)
                    if arr.shape[1] != len(ids) or not np.allclose(arr[:, qi].real.numpy(), ref, atol=1e-9):
                        print(f"REPRODUCED: qubit_ids {ids}, samples listed as {order}: column {qi} of {name} is not the "
                              f"interpolation of the samples of {q!r}: {arr[:, qi].real.tolist()} vs {ref.tolist()}")
                        return 1
    import subprocess
    q = subprocess.run([sys.executable, os.path.join(os.path.dirname(os.path.abspath(__file__)), "c22_traj.py")],
                       capture_output=True, text=True, timeout=900)
    out = "\n".join(l for l in q.stdout.splitlines() if "conda" not in l.lower())
    if q.returncode == 1 and "REPRODUCED:" in out:
        print("\n".join(out.splitlines()[-6:]))
        return 1
    print("  trajectory part: " + (out.strip().splitlines() or ["(no output)"])[-1])
    print(f"NOT-REPRODUCED: {len(cases)} sample sets: interpolated at midpoints, amplitude never negative")
    return 0


if __name__ == "__main__":
    sys.exit(main())
