"""C32 native replay: permutation helpers are mutually consistent; minimize_bandwidth returns a
permutation that is no worse than the input order (random symmetric matrices: sparse, signed,
tied, with zero rows)."""
import os
import random
import sys

import torch


def main():
    from emu_mps.optimatrix import (eye_permutation, inv_permutation, minimize_bandwidth, permute_list,
                                    permute_string, permute_tensor, permute_tuple)
    from emu_mps.optimatrix.optimiser import matrix_bandwidth, minimize_bandwidth_impl
    seed = int(os.environ.get("VERIF_SEED", "0"))
    rnd = random.Random(seed)
    torch.manual_seed(seed)
    # ---- helpers -------------------------------------------------------------------------
    for trial in range(300):
        n = rnd.randint(1, 9)
        p = torch.randperm(n)
        lst = [rnd.randint(0, 99) for _ in range(n)]
        s = "".join(rnd.choice("01") for _ in range(n))
        vec = torch.tensor(lst)
        mat = torch.randn(n, n, dtype=torch.float64)
        inv = inv_permutation(p)
        want = [lst[int(p[k])] for k in range(n)]
        got = {"permute_list": permute_list(lst, p), "permute_tuple": list(permute_tuple(tuple(lst), p)),
               "permute_tensor[1d]": permute_tensor(vec, p).tolist()}
        for nm, g in got.items():
            if g != want:
                print(f"REPRODUCED: {nm}({lst}, {p.tolist()}) = {g}, expected out[k] = in[perm[k]] = {want}")
                return 1
        ws = "".join(s[int(p[k])] for k in range(n))
        if permute_string(s, p) != ws:
            print(f"REPRODUCED: permute_string({s!r}, {p.tolist()}) = {permute_string(s, p)!r}, expected {ws!r}")
            return 1
        pm = permute_tensor(mat, p)
        for i in range(n):
            for j in range(n):
                if pm[i, j] != mat[p[i], p[j]]:
                    print(f"REPRODUCED: permute_tensor(M, {p.tolist()})[{i},{j}] != M[perm[{i}], perm[{j}]]")
                    return 1
        if sorted(inv.tolist()) != list(range(n)) or any(int(inv[p[i]]) != i for i in range(n)):
            print(f"REPRODUCED: inv_permutation({p.tolist()}) = {inv.tolist()} is not the inverse permutation")
            return 1
        for a, b, tag in ((p, inv, "perm then inverse"), (inv, p, "inverse then perm")):
            if (permute_list(permute_list(lst, a), b) != lst or permute_tuple(permute_tuple(tuple(lst), a), b) != tuple(lst)
                    or permute_string(permute_string(s, a), b) != s
                    or not torch.equal(permute_tensor(permute_tensor(vec, a), b), vec)
                    or not torch.equal(permute_tensor(permute_tensor(mat, a), b), mat)):
                print(f"REPRODUCED: inverse does not undo permute ({tag}) for perm {p.tolist()}")
                return 1
        o = torch.randperm(n)
        if not torch.equal(permute_tensor(permute_tensor(mat, p), o), permute_tensor(mat, permute_tensor(p, o))):
            print(f"REPRODUCED: permute(permute(M, a), o) != permute(M, permute(a, o)) for a={p.tolist()}, o={o.tolist()}")
            return 1
        if not torch.equal(eye_permutation(n), torch.arange(n)):
            print("REPRODUCED: eye_permutation is not the identity")
            return 1
    # ---- optimiser -------------------------------------------------------------------------
    checked = 0
    for trial in range(60):
        n = rnd.randint(1, 12)
        m = torch.zeros(n, n, dtype=torch.float64)
        dens = rnd.choice([0.0, 0.2, 0.5, 1.0])
        for i in range(n):
            for j in range(i + 1, n):
                if rnd.random() < dens:
                    v = rnd.choice([1.0, 1.0, -1.0, 0.5, rnd.uniform(-3, 3)])
                    m[i, j] = m[j, i] = v
        if n > 2 and rnd.random() < 0.3:
            z = rnd.randrange(n)
            m[z, :] = 0
            m[:, z] = 0
        m_before = m.clone()
        try:
            p = minimize_bandwidth(m, samples=5)
        except NotImplementedError as e:
            if not m.any():
                print(f"REPRODUCED: minimize_bandwidth raised NotImplementedError({e}) on the all-zero {n}x{n} matrix "
                      "(no interactions: every order is optimal, the optimiser must return a permutation)")
                return 1
            continue
        except AssertionError as e:
            print(f"REPRODUCED: minimize_bandwidth raised AssertionError({e}) on a symmetric {n}x{n} matrix "
                  f"{m.tolist()}")
            return 1
        checked += 1
        if not torch.equal(m, m_before):
            print(f"REPRODUCED: minimize_bandwidth modified its argument: {m_before.tolist()} became {m.tolist()}")
            return 1
        if sorted(p.tolist()) != list(range(n)):
            print(f"REPRODUCED: minimize_bandwidth returned {p.tolist()}, not a permutation of range({n})")
            return 1
        b0 = matrix_bandwidth(torch.abs(m))
        b1 = matrix_bandwidth(permute_tensor(torch.abs(m), p))
        if b1 > b0:
            print(f"REPRODUCED: bandwidth after optimisation {b1} > original {b0} for {m.tolist()}, perm {p.tolist()}")
            return 1
        if matrix_bandwidth(m) != b0:
            print(f"REPRODUCED: matrix_bandwidth(M) = {matrix_bandwidth(m)} != matrix_bandwidth(|M|) = {b0}")
            return 1
        init = torch.randperm(n)
        try:
            q, bw = minimize_bandwidth_impl(torch.abs(m), init)
        except NotImplementedError:
            continue
        if sorted(q.tolist()) != list(range(n)) or bw != matrix_bandwidth(permute_tensor(torch.abs(m), q)) \
                or bw > matrix_bandwidth(permute_tensor(torch.abs(m), init)):
            print(f"REPRODUCED: minimize_bandwidth_impl(|M|, {init.tolist()}) = ({q.tolist()}, {bw}): not a "
                  f"permutation / bandwidth is not that of the permuted matrix / worse than the initial order; M = {m.tolist()}")
            return 1
    for n in (1, 2, 4, 7, 12):
        for dtp in (torch.float64, torch.float32):
            z = torch.zeros(n, n, dtype=dtp)
            try:
                p = minimize_bandwidth(z)
            except Exception as e:
                print(f"REPRODUCED: minimize_bandwidth raised {type(e).__name__}({e}) on the all-zero {n}x{n} {dtp} matrix")
                return 1
            if sorted(p.tolist()) != list(range(n)):
                print(f"REPRODUCED: minimize_bandwidth(all-zero {n}x{n}) returned {p.tolist()}, not a permutation")
                return 1
    print(f"NOT-REPRODUCED: 300 helper rounds consistent; {checked} random symmetric matrices: optimiser returned "
          "a permutation that is no worse than the input order")
    return 0


if __name__ == "__main__":
    sys.exit(main())
