"""C11 native falsifier (bounded, sampled): the QR/SVD-based MPS/MPO operations that exact polynomial reasoning (Engine B)
cannot follow -- orthogonalize, truncate, norm/apply from any centre, expect_batch, get_correlation_matrix,
entanglement_entropy, __add__, MPO.apply_to, MPO.__matmul__, MPO.expect -- run on random complex matrix-product factors
(2-6 sites, physical dimension 2 and 3, inner bond dimensions 1-4, the orthogonality centre moved to every site through
the public calls that move it) and compared with the same operation on the dense vectors / matrices.  Operations not
documented as in-place must leave the represented state of their operands unchanged.

usage: c11_native.py [replay.json] [repo_root]      exit 1 + 'REPRODUCED: ...' when an input fails, 0 otherwise
"""
import math
import os
import random
import sys
import warnings

warnings.filterwarnings("ignore")
import torch  # noqa: E402

torch.set_num_threads(1)
C = torch.complex128
TOL = 1e-9


def dense_state(factors):
    acc = factors[0].reshape(factors[0].shape[1], factors[0].shape[2])
    for f in factors[1:]:
        acc = torch.tensordot(acc, f, dims=([acc.dim() - 1], [0]))
        acc = acc.reshape(-1, f.shape[2])
    return acc.reshape(-1)


def dense_op(factors):
    """MPO factors (left, out, in, right) -> matrix, site 0 most significant"""
    acc = factors[0][0]                       # (out, in, r)
    for f in factors[1:]:
        acc = torch.tensordot(acc, f, dims=([2], [0]))          # (O, I, out, in, r)
        O, I, o, i, r = acc.shape
        acc = acc.permute(0, 2, 1, 3, 4).reshape(O * o, I * i, r)
    return acc[:, :, 0]


def site_op(op, q, n, d):
    out = torch.ones(1, 1, dtype=C)
    for k in range(n):
        out = torch.kron(out, op if k == q else torch.eye(d, dtype=C))
    return out


def rel(a, b):
    a = torch.as_tensor(a).to(C).reshape(-1)
    b = torch.as_tensor(b).to(C).reshape(-1)
    return ((a - b).norm() / max(1.0, b.norm().item())).item()


def rand_factors(rnd, n, d, chimax, g):
    bonds = [1] + [rnd.randint(1, chimax) for _ in range(n - 1)] + [1]
    return [torch.randn(bonds[i], d, bonds[i + 1], dtype=C, generator=g) for i in range(n)]


def rand_mpo(rnd, n, d, chimax, g):
    bonds = [1] + [rnd.randint(1, chimax) for _ in range(n - 1)] + [1]
    return [torch.randn(bonds[i], d, d, bonds[i + 1], dtype=C, generator=g) * 0.7 for i in range(n)]


def main():
    from emu_mps import MPS, MPO
    from emu_mps.mps import inner as mps_inner
    rnd = random.Random(int(os.environ.get("VERIF_SEED", "0")) + 11)
    g = torch.Generator().manual_seed(rnd.randrange(10 ** 6))
    bases = {2: [("r", "g"), ("0", "1")], 3: [("r", "g", "x")]}
    n_checks = 0

    def mk(factors, d, basis, **kw):
        return MPS([f.clone() for f in factors], eigenstates=basis, precision=1e-13, num_gpus_to_use=0, **kw)

    def fail(msg):
        print("REPRODUCED: " + msg)
        return 1

    for trial in range(24):
        d = 3 if trial % 4 == 3 else 2
        n = rnd.choice([2, 3, 3, 4, 5, 6]) if d == 2 else rnd.choice([2, 3, 4])
        chimax = rnd.choice([1, 2, 4]) if d == 2 else rnd.choice([1, 2, 3])
        basis = rnd.choice(bases[d])
        fa = rand_factors(rnd, n, d, chimax, g)
        psi = dense_state(fa)
        fa[0] = fa[0] / psi.norm()
        psi = psi / psi.norm()
        fb = rand_factors(rnd, n, d, chimax, g)
        phi = dense_state(fb)
        ops = torch.randn(3, d, d, dtype=C, generator=g)
        ops[0] = 0
        ops[0, 1, 1] = 1.0                                           # the number operator
        where = f"n={n} dim={d} basis={basis} chi<={chimax}"

        # ---- moving the centre through the public calls; every later operation from every centre
        movers = [("none", None)]
        for k in range(n):
            movers.append((f"orthogonalize({k})", k))
        movers.append(("apply(k, identity)", rnd.randrange(n)))
        movers.append(("get_correlation_matrix()", n - 1))
        movers.append(("entanglement_entropy", 0))
        for how, k in movers:
            a = mk(fa, d, basis)
            if how.startswith("orthogonalize"):
                a.orthogonalize(k)
            elif how.startswith("apply"):
                a.apply(k, torch.eye(d, dtype=C))
            elif how.startswith("get_corr"):
                a.get_correlation_matrix()
            elif how.startswith("entanglement"):
                a.entanglement_entropy(rnd.randrange(n))
            tag = f"{where}, centre via {how} -> {a.orthogonality_center}"
            if rel(dense_state(a.factors), psi) > TOL:
                return fail(f"{how} changed the represented state by {rel(dense_state(a.factors), psi):.3g} ({tag})")
            c = a.orthogonality_center
            if c is not None:
                for i, f in enumerate(a.factors):
                    if i < c:
                        m = f.reshape(-1, f.shape[2])
                        iso = (m.conj().T @ m - torch.eye(m.shape[1], dtype=C)).norm().item()
                    elif i > c:
                        m = f.reshape(f.shape[0], -1)
                        iso = (m @ m.conj().T - torch.eye(m.shape[0], dtype=C)).norm().item()
                    else:
                        continue
                    if iso > 1e-8:
                        return fail(f"factor {i} is not an isometry towards the stated centre {c} (defect {iso:.3g}) ({tag})")
            # norm
            if abs(a.norm().item() - 1.0) > TOL:
                return fail(f"norm() = {a.norm().item()} for a state of norm 1 ({tag})")
            # expect_batch
            before = dense_state(a.factors).clone()
            got = a.expect_batch(ops)
            want = torch.stack([torch.stack([torch.vdot(psi, site_op(ops[i], q, n, d) @ psi) for i in range(3)])
                                for q in range(n)])
            if rel(got, want) > 1e-8:
                bad = [q for q in range(n) if rel(got[q], want[q]) > 1e-8]
                return fail(f"expect_batch differs from <psi|op_q|psi> at sites {bad}: relative error "
                            f"{rel(got, want):.3g} ({tag})")
            if rel(dense_state(a.factors), before) > TOL:
                return fail(f"expect_batch changed the state ({tag})")
            n_checks += 3
            # correlation matrix of a projector (op^2 = op, so the diagonal convention does not matter)
            corr = a.get_correlation_matrix()
            nop = ops[0]
            wantc = torch.zeros(n, n, dtype=C)
            for i in range(n):
                for j in range(n):
                    m = site_op(nop, i, n, d) @ site_op(nop, j, n, d) if i != j else site_op(nop, i, n, d)
                    wantc[i, j] = torch.vdot(psi, m @ psi)
            if rel(corr, wantc.real) > 1e-8:
                return fail(f"get_correlation_matrix() differs from <n_i n_j>: relative error {rel(corr, wantc.real):.3g} ({tag})")
            if rel(dense_state(a.factors), psi) > TOL:
                return fail(f"get_correlation_matrix() changed the represented state ({tag})")
            n_checks += 1
        # ---- entanglement entropy at every bond
        a = mk(fa, d, basis)
        a.orthogonalize(rnd.randrange(n))
        for b in range(n - 1):
            s = torch.linalg.svdvals(psi.reshape(d ** (b + 1), -1))
            p = (s ** 2)[s > 0]
            want = float(-(p * torch.log(p)).sum())
            got = float(a.entanglement_entropy(b))
            if not math.isfinite(got) or abs(got - want) > 1e-8:
                return fail(f"entanglement_entropy({b}) = {got}, dense Schmidt decomposition gives {want} ({where})")
            if rel(dense_state(a.factors), psi) > TOL:
                return fail(f"entanglement_entropy({b}) changed the represented state ({where})")
            n_checks += 1
        # ---- apply from any centre
        for q in range(n):
            a = mk(fa, d, basis)
            a.orthogonalize(rnd.randrange(n))
            a.apply(q, ops[1])
            if rel(dense_state(a.factors), site_op(ops[1], q, n, d) @ psi) > TOL:
                return fail(f"apply({q}, op) differs from (1 x op x 1)|psi> by "
                            f"{rel(dense_state(a.factors), site_op(ops[1], q, n, d) @ psi):.3g} ({where})")
            if a.orthogonality_center != q:
                return fail(f"apply({q}, op) leaves the centre at {a.orthogonality_center} ({where})")
            n_checks += 1
        # ---- truncate (precision 1e-13: the state is unchanged), addition, inner products, scaling
        a, b = mk(fa, d, basis), mk(fb, d, basis)
        a.orthogonalize(rnd.randrange(n))
        a.truncate()
        if rel(dense_state(a.factors), psi) > 1e-8 or a.orthogonality_center != 0:
            return fail(f"truncate() at precision 1e-13 changed the state by {rel(dense_state(a.factors), psi):.3g}, "
                        f"centre {a.orthogonality_center} ({where})")
        a = mk(fa, d, basis)
        a.orthogonalize(rnd.randrange(n))
        s = a + b
        if rel(dense_state(s.factors), psi + phi) > 1e-8:
            return fail(f"a + b differs from the dense sum by {rel(dense_state(s.factors), psi + phi):.3g} ({where})")
        if rel(dense_state(a.factors), psi) > TOL or rel(dense_state(b.factors), phi) > TOL:
            return fail(f"a + b changed an operand ({where})")
        for got, want, what in ((a.inner(b), torch.vdot(psi, phi), "a.inner(b)"),
                                (mps_inner(a, b), torch.vdot(psi, phi), "inner(a, b)"),
                                (a.overlap(b), abs(torch.vdot(psi, phi)) ** 2, "a.overlap(b)")):
            if rel(got, want) > TOL:
                return fail(f"{what} = {complex(got)} but the dense vectors give {complex(want)} ({where})")
        z = complex(rnd.uniform(-2, 2), rnd.uniform(-2, 2))
        sc = z * a
        if rel(dense_state(sc.factors), z * psi) > TOL or rel(dense_state(a.factors), psi) > TOL:
            return fail(f"scalar * a differs from the dense multiple or changed a ({where})")
        n_checks += 6
        # ---- operators
        fo, fp = rand_mpo(rnd, n, d, min(chimax, 3), g), rand_mpo(rnd, n, d, min(chimax, 2), g)
        A, B = MPO([f.clone() for f in fo], num_gpus_to_use=0), MPO([f.clone() for f in fp], num_gpus_to_use=0)
        MA, MB = dense_op(fo), dense_op(fp)
        a = mk(fa, d, basis)
        a.orthogonalize(rnd.randrange(n))
        out = A.apply_to(a)
        if rel(dense_state(out.factors), MA @ psi) > 1e-8:
            return fail(f"MPO.apply_to differs from the dense product by {rel(dense_state(out.factors), MA @ psi):.3g} ({where})")
        if rel(dense_state(a.factors), psi) > TOL or rel(dense_op(A.factors), MA) > TOL:
            return fail(f"MPO.apply_to changed an operand ({where})")
        prod = A @ B
        if rel(dense_op(prod.factors), MA @ MB) > 1e-8:
            return fail(f"A @ B differs from the dense matrix product by {rel(dense_op(prod.factors), MA @ MB):.3g} ({where})")
        if rel(dense_op(A.factors), MA) > TOL or rel(dense_op(B.factors), MB) > TOL:
            return fail(f"A @ B changed an operand ({where})")
        if rel(A.expect(a), torch.vdot(psi, MA @ psi)) > 1e-8:
            return fail(f"MPO.expect = {complex(A.expect(a))}, dense <psi|A|psi> = {complex(torch.vdot(psi, MA @ psi))} ({where})")
        if rel(dense_op((A + B).factors), MA + MB) > 1e-8 or rel(dense_op((z * A).factors), z * MA) > 1e-8:
            return fail(f"A + B or z * A differs from the dense result ({where})")
        n_checks += 5
    print(f"NOT-REPRODUCED: {n_checks} comparisons of QR/SVD-based MPS/MPO operations with dense linear algebra on 24 random "
          "states (2-6 sites, dim 2 and 3, bond dimensions 1-4, every orthogonality centre) agree; operands unchanged")
    return 0


if __name__ == "__main__":
    if len(sys.argv) > 2:
        sys.path.insert(0, sys.argv[2])
    sys.exit(main())
