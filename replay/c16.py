"""C01/C16 native replay: one emu-sv step against exp(-i dt H) psi / the Lindblad generator, and the
numbers SVBackendImpl._evolve_step hands to the stepper."""
import os, random, sys
import torch
HERE = os.path.dirname(os.path.abspath(__file__))
sys.path.insert(0, HERE)


def dense_h(om, de, ph, U):
    n = len(om)
    d = 2 ** n
    H = torch.zeros(d, d, dtype=torch.complex128)
    sx = torch.tensor([[0, 1], [1, 0]], dtype=torch.complex128)
    sy = torch.tensor([[0, -1j], [1j, 0]], dtype=torch.complex128)
    nn = torch.tensor([[0, 0], [0, 1]], dtype=torch.complex128)
    I2 = torch.eye(2, dtype=torch.complex128)

    def kron(ops):
        out = torch.ones(1, 1, dtype=torch.complex128)
        for o in ops:
            out = torch.kron(out, o)
        return out
    for q in range(n):
        loc = 0.5 * om[q] * (torch.cos(ph[q]) * sx + torch.sin(ph[q]) * sy) - de[q] * nn   # emulator basis (g, r)
        H += kron([loc if k == q else I2 for k in range(n)])
        for r in range(q + 1, n):
            H += U[q, r] * kron([nn if k in (q, r) else I2 for k in range(n)])
    return H


def lindblad_family(rnd):
    """C16: one EvolveDensityMatrix step against exp(dt * dense Lindblad generator) on vec(rho), and the physicality of
    a run of steps (Hermitian, trace one, positive semidefinite). Phases include the corners where sin or cos vanish
    (0, pi/2, pi, -pi/2, 2 pi) on all atoms or on some of them; the noise operators are arbitrary complex 2x2 matrices."""
    import math
    from emu_sv.time_evolution import EvolveDensityMatrix
    I2 = torch.eye(2, dtype=torch.complex128)

    def kron(ops):
        out = torch.ones(1, 1, dtype=torch.complex128)
        for o in ops:
            out = torch.kron(out, o)
        return out
    corners = [0.0, math.pi / 2, math.pi, -math.pi / 2, 2 * math.pi, -math.pi]
    for t in range(48):
        n = rnd.randint(1, 3)
        d = 2 ** n
        om = torch.rand(n, dtype=torch.float64) * 5 + 0.2
        de = torch.rand(n, dtype=torch.float64) * 4 - 2
        mode = t % 4
        if mode == 0:       # the same corner phase on every atom
            ph = torch.full((n,), corners[(t // 4) % len(corners)], dtype=torch.float64)
        elif mode == 1:     # corner phases, different per atom
            ph = torch.tensor([rnd.choice(corners) for _ in range(n)], dtype=torch.float64)
        elif mode == 2:     # generic
            ph = torch.rand(n, dtype=torch.float64) * 6 - 3
        else:               # one generic, the rest zero
            ph = torch.zeros(n, dtype=torch.float64)
            ph[rnd.randrange(n)] = rnd.uniform(-3, 3)
        U = torch.rand(n, n, dtype=torch.float64) * 3
        U = (U + U.T) / 2
        U.fill_diagonal_(0)
        nl = rnd.randint(1, 3)
        Ls = [(torch.randn(2, 2, dtype=torch.complex128) * rnd.choice([0.2, 0.7])) for _ in range(nl)]
        A = torch.randn(d, d, dtype=torch.complex128)
        rho = A @ A.conj().T
        rho = rho / rho.diagonal().sum()
        dt = rnd.choice([0.01, 0.1, 0.4])
        H = dense_h(om, de, ph, U)
        Id = torch.eye(d, dtype=torch.complex128)
        # column-stacking free form: vec_r(A rho B) = (A kron B^T) vec_r(rho) for row-major flattening
        G = -1j * (torch.kron(H, Id) - torch.kron(Id, H.T.contiguous()))
        for L in Ls:
            for q in range(n):
                Lq = kron([L if k == q else I2 for k in range(n)])
                LdL = Lq.conj().T @ Lq
                G = G + torch.kron(Lq, Lq.conj()) - 0.5 * (torch.kron(LdL, Id) + torch.kron(Id, LdL.T.contiguous()))
        ref = (torch.linalg.matrix_exp(dt * G) @ rho.reshape(-1)).reshape(d, d)
        out, _ = EvolveDensityMatrix.apply(dt, om.to(torch.complex128), de.to(torch.complex128), ph.to(torch.complex128),
                                           U, rho.clone(), 1e-10, [l.clone() for l in Ls])
        err = (out - ref).norm().item()
        if not (err <= 1e-6):
            print(f"REPRODUCED: Lindblad step n={n} dt={dt} phases={[round(x, 6) for x in ph.tolist()]} {nl} noise operator(s): "
                  f"|EvolveDensityMatrix(rho) - exp(dt L) rho| = {err:.3g}")
            return 1
        # physicality over a run of steps from this state
        cur = out
        for k in range(4):
            cur, _ = EvolveDensityMatrix.apply(dt, om.to(torch.complex128), de.to(torch.complex128),
                                               ph.to(torch.complex128), U, cur, 1e-10, [l.clone() for l in Ls])
        herm = (cur - cur.conj().T).norm().item()
        tr = abs(cur.diagonal().sum().item() - 1.0)
        ev = torch.linalg.eigvalsh((cur + cur.conj().T) / 2).min().item()
        if herm > 1e-7 or tr > 1e-7 or ev < -1e-7:
            print(f"REPRODUCED: Lindblad run n={n} dt={dt} phases={[round(x, 6) for x in ph.tolist()]}: after 5 steps "
                  f"|rho - rho^dagger| = {herm:.3g}, |tr rho - 1| = {tr:.3g}, smallest eigenvalue {ev:.3g}")
            return 1
    # consecutive steps that share the amplitude, detuning, interaction-matrix and noise-operator OBJECTS and differ in one
    # drive only (back-to-back pulses with another phase / detuning / amplitude): anything kept from the previous step
    # must not stand in for the new generator
    n, d = 2, 4
    U2 = torch.tensor([[0.0, 1.7], [1.7, 0.0]], dtype=torch.float64)
    Lk = [torch.tensor([[0.0, 0.6], [0.0, 0.0]], dtype=torch.complex128),
          torch.tensor([[0.5, 0.0], [0.0, -0.5]], dtype=torch.complex128)]
    om0 = torch.tensor([3.0, 3.0], dtype=torch.complex128)
    de0 = torch.tensor([0.5, 0.5], dtype=torch.complex128)
    ph0 = torch.tensor([0.0, 0.0], dtype=torch.complex128)
    variants = {"phase": (om0, de0, torch.tensor([1.3, 1.3], dtype=torch.complex128)),
                "detuning": (om0, torch.tensor([-2.0, -2.0], dtype=torch.complex128), ph0),
                "amplitude": (torch.tensor([1.0, 1.0], dtype=torch.complex128), de0, ph0)}
    for what, (om1, de1, ph1) in variants.items():
        rho = torch.zeros(d, d, dtype=torch.complex128)
        rho[0, 0] = 1.0
        ref = rho.clone()
        for k, (o_, d_, p_) in enumerate([(om0, de0, ph0), (om1, de1, ph1), (om0, de0, ph0)]):
            rho, _ = EvolveDensityMatrix.apply(0.3, o_, d_, p_, U2, rho, 1e-10, Lk)
            H = dense_h(o_.real, d_.real, p_.real, U2)
            Id = torch.eye(d, dtype=torch.complex128)
            G = -1j * (torch.kron(H, Id) - torch.kron(Id, H.T.contiguous()))
            for L in Lk:
                for q in range(n):
                    Lq = kron([L if j == q else I2 for j in range(n)])
                    LdL = Lq.conj().T @ Lq
                    G = G + torch.kron(Lq, Lq.conj()) - 0.5 * (torch.kron(LdL, Id) + torch.kron(Id, LdL.T.contiguous()))
            ref = (torch.linalg.matrix_exp(0.3 * G) @ ref.reshape(-1)).reshape(d, d)
            if (rho - ref).norm().item() > 1e-6:
                print(f"REPRODUCED: Lindblad steps sharing all parameter objects, step {k + 1} differs from the previous one in "
                      f"the {what} only: |rho - exp(dt L_k) ... rho_0| = {(rho - ref).norm().item():.3g}")
                return 1
    # F33 (fixed in d112f14): the generator is the Lindbladian only on Hermitian matrices; an anti-Hermitian rounding
    # residue is amplified by exp(dt * spread(sum L^dagger L)/2) per step unless each step returns a Hermitian matrix.
    # Strong complex noise operators, many steps: the run must follow the product of dense exponentials.
    g = torch.Generator().manual_seed(33)
    n, d, dt, steps = 3, 8, 0.25, 16
    om = torch.tensor([3.0, 4.0, 2.5], dtype=torch.float64)
    de = torch.tensor([0.4, -1.0, 0.7], dtype=torch.float64)
    ph = torch.tensor([0.3, 0.3, 0.3], dtype=torch.float64)
    U = torch.tensor([[0.0, 1.1, 0.3], [1.1, 0.0, 0.8], [0.3, 0.8, 0.0]], dtype=torch.float64)
    Ls = [torch.randn(2, 2, dtype=torch.complex128, generator=g) * 1.2 for _ in range(2)]
    H = dense_h(om, de, ph, U)
    Id = torch.eye(d, dtype=torch.complex128)
    G = -1j * (torch.kron(H, Id) - torch.kron(Id, H.T.contiguous()))
    for L in Ls:
        for q in range(n):
            Lq = kron([L if k == q else I2 for k in range(n)])
            LdL = Lq.conj().T @ Lq
            G = G + torch.kron(Lq, Lq.conj()) - 0.5 * (torch.kron(LdL, Id) + torch.kron(Id, LdL.T.contiguous()))
    E = torch.linalg.matrix_exp(dt * G)
    A = torch.randn(d, d, dtype=torch.complex128, generator=g)
    rho = A @ A.conj().T
    rho = rho / rho.diagonal().sum()
    cur = rho.clone()
    f34 = []
    for k in range(steps):
        one = (E @ cur.reshape(-1)).reshape(d, d)          # the exact step from the state the emulator is in
        # F34 region (open known finding, krylov_exp): convergence declared at the first iteration through
        # err2 = |expd[2,0]| * |A v_0| although |A v_0| << |A v_1| (the start vector is close to the kernel of the
        # generator, e.g. a nearly stationary density matrix)
        v0 = cur.reshape(-1) / cur.norm()
        a0 = dt * (G @ v0)
        w = a0 - torch.vdot(v0, a0) * v0
        n0, n1 = a0.norm().item(), (dt * (G @ (w / w.norm()))).norm().item()
        cur, _ = EvolveDensityMatrix.apply(dt, om.to(torch.complex128), de.to(torch.complex128), ph.to(torch.complex128),
                                           U, cur, 1e-10, [l.clone() for l in Ls])
        herm = (cur - cur.conj().T).norm().item()
        err = (cur - one).norm().item()
        tr = abs(cur.diagonal().sum().item() - 1.0)
        if herm <= 1e-9 and tr <= 1e-7 and err > 1e-6 and n0 < 0.05 * n1 and n0 * n0 < 1e-8:
            f34.append((k + 1, err, n0, n1))
            continue
        if not (herm <= 1e-9 and err <= 1e-6 and tr <= 1e-7):
            print(f"REPRODUCED: Lindblad run, 3 atoms, two complex noise operators of norm {Ls[0].norm().item():.2f} and "
                  f"{Ls[1].norm().item():.2f}, dt={dt}: after step {k + 1} |rho - rho^dagger| = {herm:.3g}, "
                  f"|step - exp(dt L) rho| = {err:.3g}, |tr rho - 1| = {tr:.3g} (F33 if it grows from step to step)")
            return 1
    if f34:
        k, err, n0, n1 = f34[0]
        print(f"  KNOWN-FINDING-F34-INPUT-FAILS: nearly stationary density matrix (step {k} of the strong-noise run, "
              f"krylov_tolerance 1e-10): |step - exp(dt L) rho| = {err:.3g} with |A v0| = {n0:.3g} << |A v1| = {n1:.3g}; "
              f"{len(f34)} of {steps} steps")
    return 0


def ownership():
    """the evolving state must not share storage with the configured initial state: after a run the
    user's initial state is unchanged and a second run from the same backend gives the same results"""
    from native_util import patch_pulser_observable, make_sequence_data
    patch_pulser_observable()
    from emu_sv import SVConfig, StateVector, DensityMatrix
    from emu_sv.sv_backend_impl import SVBackendImpl
    L = torch.zeros(2, 2, dtype=torch.complex128)
    L[0, 1] = 0.4
    for noisy in (False, True):
        n = 2
        if noisy:
            rho = torch.diag(torch.tensor([0.4, 0.3, 0.2, 0.1], dtype=torch.complex128))
            init = DensityMatrix(rho.clone(), gpu=False)
        else:
            psi = torch.tensor([0.5, 0.5j, -0.5, 0.5], dtype=torch.complex128) * 3.0     # deliberately unnormalised
            init = StateVector(psi.clone(), gpu=False)
        before = init.data.clone()
        data = make_sequence_data(n, 3, omega=(torch.ones(3, n, dtype=torch.complex128) * 2.0),
                                  lindblad_ops=[L] if noisy else None)
        cfg = SVConfig(observables=[], gpu=False, krylov_tolerance=1e-9, log_level=50, initial_state=init)
        impl = SVBackendImpl(cfg, data)
        shared = impl.state.data.data_ptr() == cfg.initial_state.data.data_ptr()
        for k in range(2):
            impl._evolve_step(impl.target_times[k + 1] - impl.target_times[k], k)
        changed = not torch.equal(cfg.initial_state.data, before)
        if shared or changed:
            print(f"REPRODUCED: SVBackendImpl({'density matrix' if noisy else 'state vector'} initial state): the evolving "
                  f"state {'shares' if shared else 'does not share'} storage with config.initial_state.data; after two steps "
                  f"the configured initial state {'CHANGED' if changed else 'is unchanged'} "
                  f"(max |after - before| = {(cfg.initial_state.data - before).abs().max().item():.3g})")
            return 1
    return 0


def main():
    if len(sys.argv) > 1 and os.path.exists(sys.argv[1]) and "SVBackendImpl.__init__" in open(sys.argv[1]).read(3000):
        rc = ownership()
        if rc == 0:
            print("NOT-REPRODUCED: the configured initial state is neither shared nor modified by the run")
        return rc
    from emu_sv.time_evolution import EvolveStateVector
    rnd = random.Random(int(os.environ.get("VERIF_SEED", "0")))
    torch.manual_seed(0)
    for t in range(60):
        n = rnd.randint(1, 3)
        om = torch.rand(n, dtype=torch.float64) * 5
        de = torch.rand(n, dtype=torch.float64) * 4 - 2
        ph = torch.rand(n, dtype=torch.float64) * rnd.choice([0.0, 3.0])
        if t % 3 == 2:
            # corner phases (sin or cos vanish): the same on all atoms, or mixed with zero (an SLM-masked atom)
            import math
            corner = [math.pi, -math.pi, math.pi / 2, -math.pi / 2, 2 * math.pi, 3 * math.pi][(t // 3) % 6]
            ph = torch.full((n,), corner, dtype=torch.float64)
            if t % 2 and n > 1:
                ph[rnd.randrange(n)] = 0.0
        U = torch.rand(n, n, dtype=torch.float64) * 3
        U = (U + U.T) / 2
        U.fill_diagonal_(0)
        psi = torch.randn(2 ** n, dtype=torch.complex128)
        psi /= psi.norm()
        dt = rnd.choice([0.01, 0.1, 0.5])
        out, _ = EvolveStateVector.evolve(dt, om.to(torch.complex128), de.to(torch.complex128),
                                          ph.to(torch.complex128), U, psi.clone(), 1e-10, [])
        ref = torch.linalg.matrix_exp(-1j * dt * dense_h(om, de, ph, U)) @ psi
        if (out - ref).norm() > 1e-6:
            print(f"REPRODUCED: n={n} dt={dt} phases={[round(x, 6) for x in ph.tolist()]}: "
                  f"|evolve(psi) - exp(-i dt H) psi| = {(out - ref).norm().item():.3g}")
            return 1
    rc = lindblad_family(rnd)
    if rc:
        return rc
    # a long run of steps whose parameters change very little from one step to the next (a slow detuning ramp),
    # same interaction-matrix object throughout: state kept between steps (a cached diagonal, a reused operator)
    # must not freeze any term -- the product of the steps against the product of dense exponentials
    n = 3
    U = torch.tensor([[0.0, 1.3, 0.4], [1.3, 0.0, 0.9], [0.4, 0.9, 0.0]], dtype=torch.float64)
    om = torch.full((n,), 2.0, dtype=torch.float64)
    ph = torch.zeros(n, dtype=torch.float64)
    psi = torch.zeros(2 ** n, dtype=torch.complex128)
    psi[0] = 1.0
    ref = psi.clone()
    steps, dt_ = 400, 0.005
    for k in range(steps):
        de = torch.full((n,), 100.0 * (1.0 + 2.5e-6 * k), dtype=torch.float64) + torch.tensor([0.0, 0.3, -0.2], dtype=torch.float64)
        psi, _ = EvolveStateVector.evolve(dt_, om.to(torch.complex128), de.to(torch.complex128), ph.to(torch.complex128),
                                          U, psi, 1e-12, [])
        ref = torch.linalg.matrix_exp(-1j * dt_ * dense_h(om, de, ph, U)) @ ref
    # make the slow drift matter: total detuning change 0.1 rad/us over 2 us of evolution
    drift_err = (psi - ref).norm().item()
    if drift_err > 1e-6:
        print(f"REPRODUCED: {steps} consecutive steps with a detuning ramp of relative slope 2.5e-6 per step: "
              f"|product of emu-sv steps - product of exp(-i dt H_k)| = {drift_err:.3g}")
        return 1
    # wiring of _evolve_step
    from native_util import patch_pulser_observable, make_sequence_data
    patch_pulser_observable()
    from emu_sv import SVConfig
    from emu_sv.sv_backend_impl import SVBackendImpl
    data = make_sequence_data(2, 3, omega=(torch.arange(6, dtype=torch.float64).reshape(3, 2) + 1.0).to(torch.complex128))
    data.target_times[:] = [0.0, 7.0, 10.0, 20.0]
    impl = SVBackendImpl(SVConfig(observables=[], gpu=False, krylov_tolerance=1e-9, log_level=50), data)
    seen = {}

    class Spy:
        @staticmethod
        def apply(*a):
            seen["args"] = a
            return a[5], None
    impl.stepper = Spy
    times = []
    orig = impl.interaction_matrix
    impl.interaction_matrix = lambda t: (times.append(t), orig(t))[1]
    impl._evolve_step(3.0, 1)
    a = seen["args"]
    ok = abs(a[0] - 0.003) < 1e-15 and torch.equal(a[1], data.omega[1]) and times == [7.0] and a[6] == 1e-9
    if not ok:
        print(f"REPRODUCED: _evolve_step(3.0, 1) handed dt={a[0]}, omega={a[1].tolist()}, matrix time {times}, tol={a[6]}")
        return 1
    print("NOT-REPRODUCED: 60 random single steps match exp(-i dt H) psi; 48 Lindblad steps (corner phases included) match "
          "exp(dt L) rho and stay Hermitian, trace one, positive; _evolve_step wiring as specified")
    return 0


if __name__ == "__main__":
    sys.exit(main())
