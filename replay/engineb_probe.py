"""Native probe of an UNDECIDED Engine-B (symtorch) case -- run with /venv/bin/python (real torch).

usage: engineb_probe.py <probe.json> <repo_root>

A case is undecided when the code under test takes a decision that depends on the *value* of a
symbolic entry (e.g. `(torch.sin(phis).abs() > 1e-8).any()`): the polynomial shim cannot follow
it.  An undecided case is never a violation by itself.  This program searches for a failing
input of that case natively: it rebuilds the case with real torch tensors for a fixed panel of
numeric assignments of the symbols and compares the real code from <repo_root> with the same
dense specification.  The panel puts the boundary values a value-dependent decision is likely to
test first: every angle pi / -pi / 2 pi / pi/2 (never the literal 0.0: an angle symbol stands for a
NON-ZERO phase, the literal-zero pattern is a separate case of the harness), mixed multiples of pi, every real 0 / 1 / -1,
reals of alternating or random sign and equal magnitude (cancelling sums), then seeded generic values.  It is a bounded search (PANEL assignments), labelled as such.

Prints REPRODUCED and exits 1 at the first assignment where the real code disagrees with the
specification (the assignment is written back into <probe.json> as `env`); NOT-REPRODUCED / exit 0
when all assignments agree.
"""
import importlib
import json
import math
import os
import random
import sys


def panels(seed):
    pi = math.pi
    out = []
    for a in (pi, -pi, 2 * pi, 3 * pi, pi / 2, -pi / 2):
        out.append(("all angles %.4g, generic reals" % a, lambda i, r, a=a: a, None))
    out.append(("angles alternate 2pi / pi", lambda i, r: (2 * pi, pi)[i % 2], None))
    out.append(("angles alternate pi / 2pi", lambda i, r: (pi, 2 * pi)[i % 2], None))
    out.append(("angles random multiples of pi", lambda i, r: pi * r.choice((-3, -2, -1, 1, 2, 3)), None))
    out.append(("angles random multiples of pi/2", lambda i, r: pi / 2 * r.choice((-4, -3, -2, -1, 1, 2, 3, 4)), None))
    for v in (0.0, 1.0, -1.0):
        out.append(("generic angles, all reals %g" % v, None, lambda i, r, v=v: v))
    out.append(("generic angles, reals alternate 1 / -1", None, lambda i, r: (1.0, -1.0)[i % 2]))
    out.append(("generic angles, reals alternate -1 / 1", None, lambda i, r: (-1.0, 1.0)[i % 2]))
    for k in range(4):
        out.append(("generic angles, reals random in {-1, 1} #%d" % k, None, lambda i, r: r.choice((-1.0, 1.0))))
    for k in range(3):
        out.append(("generic angles, reals random in {-1, 0, 1} #%d" % k, None, lambda i, r: r.choice((-1.0, 0.0, 1.0))))
    out.append(("all angles pi, all reals 1", lambda i, r: pi, lambda i, r: 1.0))
    out.append(("tiny angles 1e-9", lambda i, r: 1e-9 * (i + 1), None))
    out.append(("angles pi + 1e-9", lambda i, r: pi + 1e-9 * (i + 1), None))
    for k in range(4):
        out.append(("generic #%d" % k, None, None))
    return out


def main():
    path, repo_root = sys.argv[1], os.path.realpath(sys.argv[2])
    sys.path.insert(0, repo_root)
    sys.path.insert(0, "/verif/symtorch/harness")
    with open(path) as f:
        rec = json.load(f)
    from symharness.core import NumBackend, execute
    mod = importlib.import_module("symharness." + rec["property"].lower())
    for p in mod.PACKAGES:
        m = importlib.import_module(p)
        f = os.path.realpath(m.__file__)
        if not f.startswith(repo_root + os.sep):
            print(f"replay error: {p} imported from {f}, not from {repo_root}")
            return 3

    class Probe(NumBackend):
        def __init__(self, fa, fr, rng):
            super().__init__({})
            self.fa, self.fr, self.rng = fa, fr, rng
            self.na = self.nr = 0

        def real(self, name, nonzero=False):
            if name not in self.env:
                v = self.fr(self.nr, self.rng) if self.fr else self.rng.uniform(-2, 2)
                if nonzero and v == 0:
                    v = 1.0
                self.env[name] = v
                self.nr += 1
            return super().real(name, nonzero)

        def angle(self, name):
            if name not in self.env:
                self.env[name] = self.fa(self.na, self.rng) if self.fa else self.rng.uniform(-3, 3)
                self.na += 1
            return super().angle(name)

    print(f"case: {json.dumps(rec['case'])}")
    print(f"symbolic verdict: undecided ({rec.get('op')})")
    tried = 0
    for k, (label, fa, fr) in enumerate(panels(rec.get("seed", 0))):
        B = Probe(fa, fr, random.Random(1000 * int(rec.get("seed", 0)) + k))
        r = execute(B, dict(rec["case"]), mod.KINDS[rec["case"]["kind"]])
        tried += 1
        if r["status"] == "crash":
            print(r.get("traceback", ""))
            return 3
        if r["status"] in ("mismatch", "raised"):
            print(f"assignment '{label}': {json.dumps(B.env)}")
            if r["status"] == "mismatch":
                for m in r["mismatches"][:3]:
                    print(f"  {m.get('check')} index {m.get('index')}: real code {m.get('got')}  specification {m.get('want')}")
            else:
                print(f"  real code raised {r['exception']['type']}: {r['exception']['message']}")
                print(r["exception"]["traceback"][-1200:])
            rec["env"], rec["panel"], rec["native_status"] = B.env, label, r["status"]
            with open(path, "w") as f:
                json.dump(rec, f, indent=1, default=str)
            print("REPRODUCED")
            return 1
    print(f"NOT-REPRODUCED ({tried} assignments of the panel agree with the specification)")
    return 0


if __name__ == "__main__":
    sys.exit(main())
