"""C33/C04 native replays: safeguards and rejections on the real classes."""
import json
import subprocess
import sys
import os

HERE = os.path.dirname(os.path.abspath(__file__))
sys.path.insert(0, HERE)


def main():
    rec = json.load(open(sys.argv[1]))
    ob = rec["obligation"]
    import torch
    from native_util import patch_pulser_observable, make_sequence_data
    patched = patch_pulser_observable()
    if patched:
        print("harness: pulser Observable.__init__ wrapped to supply default_aggregation_method (C31)")
    if "create_impl" in ob or "DMRGBackendImpl" in ob:
        import pulser
        from emu_mps import MPSConfig
        from emu_mps.solver import Solver
        from emu_mps.mps_backend_impl import create_impl
        nm = pulser.NoiseModel(relaxation_rate=0.1)
        cfg = MPSConfig(solver=Solver.DMRG, noise_model=nm, observables=[])
        L = torch.zeros(2, 2, dtype=torch.complex128)
        L[0, 1] = 0.3
        data = make_sequence_data(3, 2, lindblad_ops=[L])
        try:
            impl = create_impl(data, cfg)
        except NotImplementedError as e:
            print("NOT-REPRODUCED: DMRG + relaxation noise is refused:", e)
            return 0
        print(f"REPRODUCED: create_impl(solver=DMRG, noise_types={nm.noise_types}) returned "
              f"{type(impl).__name__} instead of refusing")
        return 1
    if "_extract_omega_delta_phi[bases=" in ob:
        from emu_base.pulser_adapter import _extract_omega_delta_phi
        import itertools
        bases = ob.split("[bases=")[1].split("]")[0].split("+")
        bases = [b for b in bases if b]

        class Fake:
            def __init__(self, sig):
                self.sig = sig
                self.max_duration = 4

            def to_nested_dict(self, all_local=True, samples_type="tensor"):
                return {"Local": self.sig}
        # every combination of {all-zero, non-zero} amplitude / detuning per basis
        for pattern in itertools.product([0.0, 1.5], repeat=2 * max(len(bases), 1)):
            sig = {}
            for k, b in enumerate(bases):
                a, d = pattern[2 * k], pattern[2 * k + 1]
                sig[b] = {q: {"amp": torch.full((4,), a, dtype=torch.float64),
                              "det": torch.full((4,), d, dtype=torch.float64),
                              "phase": torch.zeros(4, dtype=torch.float64)} for q in ("q0", "q1")}
            try:
                _extract_omega_delta_phi(Fake(sig), ("q0", "q1"), [0.0, 2.0, 4.0])
            except ValueError:
                continue
            except Exception as e:
                print(f"  bases {bases}, (amp,det) levels {pattern}: {type(e).__name__}: {e}")
                continue
            print(f"REPRODUCED: samples spanning the bases {bases} with (amplitude, detuning) levels {pattern} "
                  "were accepted and drive data were returned (the other basis' drive is silently dropped)")
            return 1
        print(f"NOT-REPRODUCED: bases {bases} are refused for every zero/non-zero amplitude-detuning pattern")
        return 0
    if "SVBackend" in ob:
        from emu_sv import SVConfig, SVBackend
        from emu_base.pulser_adapter import HamiltonianType
        for kw, what in ((dict(hamiltonian_type=HamiltonianType.XY), "XY interaction"),
                         (dict(dim=3), "three-level (leakage) basis")):
            data = make_sequence_data(2, 2, **kw)
            try:
                res = SVBackend._run_from_sequence_data(data, SVConfig(observables=[], gpu=False))
            except (NotImplementedError, ValueError) as e:
                print(f"  {what}: refused ({type(e).__name__}: {e})")
                continue
            except Exception as e:
                print(f"  {what}: not refused up front; the run died late with {type(e).__name__}: {e}")
                continue
            print(f"REPRODUCED: SVBackendImpl emulated a {what} sequence and returned results "
                  f"({type(res).__name__})")
            return 1
        print("NOT-REPRODUCED: emu-sv refused both unsupported inputs")
        return 0
    p = subprocess.run([sys.executable, os.path.join(HERE, "generic.py")] + sys.argv[1:],
                       capture_output=True, text=True)
    print(p.stdout, end="")
    return p.returncode


if __name__ == "__main__":
    sys.exit(main())
