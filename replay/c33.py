"""C33/C04 native replays: safeguards and rejections on the real classes."""
import json
import subprocess
import sys
import os

HERE = os.path.dirname(os.path.abspath(__file__))
sys.path.insert(0, HERE)


def main():
    rec = json.load(open(sys.argv[1]))
    ob = rec["obligation"]
    if rec.get("kind") == "side-check" or ob.endswith("/native-side-check"):
        import tempfile
        parts = {"C33": ["MPSConfig.__init__", "check_permutable_observables", "create_impl"],
                 "C04": ["create_impl", "SVBackend", "_extract_omega_delta_phi[bases="]}.get(rec.get("property", "C33"), [])
        for part in parts:
            fd, tmp = tempfile.mkstemp(suffix=".json")
            os.close(fd)
            json.dump(dict(rec, obligation=f"{rec.get('property')}/{part}/side-check", kind="side-part"), open(tmp, "w"))
            p = subprocess.run([sys.executable, os.path.abspath(__file__), tmp] + sys.argv[2:], capture_output=True, text=True)
            os.remove(tmp)
            out = "\n".join(l for l in p.stdout.splitlines() if "conda" not in l.lower())
            print(out)
            if p.returncode == 1 and "REPRODUCED" in out and "NOT-REPRODUCED" not in out.splitlines()[-1]:
                return 1
        print("NOT-REPRODUCED: " + ", ".join(parts) + ": safeguards and refusals hold on the sampled configurations")
        return 0
    import torch
    from native_util import patch_pulser_observable, make_sequence_data
    patched = patch_pulser_observable()
    if patched:
        print("harness: pulser Observable.__init__ wrapped to supply default_aggregation_method (C31)")
    if "MPSConfig.__init__" in ob:
        import warnings
        warnings.simplefilter("ignore")
        from emu_mps import MPSConfig
        bad = []
        for kw in (dict(precision=1e-10), dict(backend_options={"precision": 1e-10}),
                   dict(backend_options={"extra_krylov_tolerance": 1e-9}),
                   dict(precision=1e-9, backend_options={"extra_krylov_tolerance": 1e-6})):
            try:
                c = MPSConfig(observables=[], log_level=50, **kw)
            except Exception as e:
                print(f"  {kw}: {type(e).__name__}")
                continue
            eff = c.precision * c.extra_krylov_tolerance
            print(f"  {kw}: precision={c.precision} extra={c.extra_krylov_tolerance} effective={eff}")
            if eff < 1e-12 * (1 - 1e-9):
                bad.append((kw, eff))
        for kw in (dict(autosave_dt=5), dict(backend_options={"autosave_dt": 5})):
            try:
                c = MPSConfig(observables=[], log_level=50, **kw)
                bad.append((kw, f"accepted autosave_dt={c.autosave_dt}"))
            except AssertionError:
                pass
        # float corners: whatever is ACCEPTED must satisfy the floor (NaN compares false with everything)
        import math
        import numpy as np
        for v in (float("nan"), np.nan, np.float32("nan"), 10.0, math.nextafter(10.0, math.inf), -math.inf, -0.0,
                  math.inf, 1e308, 10.000001):
            try:
                c = MPSConfig(observables=[], log_level=50, autosave_dt=v)
            except Exception:
                continue
            if not (c.autosave_dt > 10):
                bad.append((dict(autosave_dt=repr(v)), f"accepted, but the stored autosave_dt = {c.autosave_dt!r} is not > 10"))
        # (a NaN tolerance is a meaningless request and is left out: nothing can be said about its floor)
        for kw in (dict(precision=1e-300, extra_krylov_tolerance=1e-300), dict(precision=1e-200, extra_krylov_tolerance=1e-200),
                   dict(precision=1e-13, extra_krylov_tolerance=1.0)):
            try:
                c = MPSConfig(observables=[], log_level=50, **kw)
            except Exception:
                continue
            eff = c.precision * c.extra_krylov_tolerance
            if not (eff >= 1e-12 * (1 - 1e-9)):
                bad.append((kw, f"accepted, effective Krylov tolerance {eff!r} is not >= 1e-12"))
        if bad:
            print(f"REPRODUCED: constructed configuration violates a safeguard: {bad}")
            return 1
        print("NOT-REPRODUCED: Krylov floor and autosave floor hold for keyword and backend_options forms")
        return 0
    if "check_permutable_observables" in ob:
        # observables whose values depend on the site order and are NOT un-permuted by permute_results:
        # requesting one must switch optimize_qubit_ordering off
        import warnings
        warnings.simplefilter("ignore")
        from emu_mps import MPSConfig, MPS, MPO
        import pulser.backend as PB
        import emu_mps
        n = 3
        state = MPS.from_state_amplitudes(eigenstates=("r", "g"), amplitudes={"rgg": 1.0})
        op = MPO.from_operator_repr(eigenstates=("r", "g"), n_qudits=n, operations=[(1.0, [({"rr": 1.0}, {0})])])
        cands = []
        for name, mk in (("Fidelity", lambda: PB.Fidelity(state, evaluation_times=[1.0])),
                         ("Expectation", lambda: PB.Expectation(op, evaluation_times=[1.0])),
                         ("StateResult", lambda: PB.StateResult(evaluation_times=[1.0])),
                         ("EntanglementEntropy", lambda: emu_mps.EntanglementEntropy(mps_site=1, evaluation_times=[1.0]))):
            try:
                cands.append((name, mk()))
            except Exception as e:          # observable not constructible with this pulser: skip
                print(f"  {name}: not constructed ({type(e).__name__}: {e})")
        # user-defined observables whose base tag merely EXTENDS a supported one (energy_density,
        # occupation_imbalance): site-resolved, unknown to permute_results -> reordering must be switched off
        def custom(base):
            class _Custom(PB.Observable):
                @property
                def _base_tag(self):
                    return base

                def apply(self, *, state, **kw):
                    return state.expect_batch(torch.tensor([[[0, 0], [0, 1]]], dtype=torch.complex128))[:, 0].real
            _Custom.__name__ = "Custom_" + base
            return _Custom
        for base in ("energy_density", "occupation_imbalance", "bitstrings2", "correlation_matrix_zz"):
            for suffix in (None, "x"):
                try:
                    cands.append((f"custom observable with base tag '{base}'" + (f", tag_suffix '{suffix}'" if suffix else ""),
                                  custom(base)(evaluation_times=[1.0], tag_suffix=suffix)))
                except Exception as e:
                    print(f"  custom {base}: not constructed ({type(e).__name__}: {e})")
        bad = []
        for name, o in cands:
            c = MPSConfig(observables=[o, PB.Occupation(evaluation_times=[1.0])], optimize_qubit_ordering=True, log_level=50)
            print(f"  {name}: optimize_qubit_ordering={c.optimize_qubit_ordering}")
            if c.optimize_qubit_ordering:
                bad.append(name)
        if bad:
            print(f"REPRODUCED: MPSConfig keeps optimize_qubit_ordering=True although {bad} is requested: its value is "
                  "computed in MPS site order and permute_results does not un-permute it")
            return 1
        print("NOT-REPRODUCED: every site-order-dependent observable switches the reordering off")
        return 0
    if "create_impl" in ob or "DMRGBackendImpl" in ob:
        import pulser
        from emu_mps import MPSConfig
        from emu_mps.solver import Solver
        from emu_mps.mps_backend_impl import create_impl
        L = torch.zeros(2, 2, dtype=torch.complex128)
        L[0, 1] = 0.3
        families = [(dict(relaxation_rate=0.1), [L], 0.0), (dict(dephasing_rate=0.1), [L], 0.0),
                    (dict(state_prep_error=0.1), [], 0.1), (dict(p_false_pos=0.1, p_false_neg=0.1), [], 0.0),
                    (dict(amp_sigma=0.1, runs=1, samples_per_run=1), [], 0.0),
                    (dict(temperature=50.0, runs=1, samples_per_run=1), [], 0.0)]
        for kw, lops, spe in families:
            try:
                nm = pulser.NoiseModel(**kw)
            except Exception as e:
                print(f"  noise model {kw}: cannot be built here ({type(e).__name__})")
                continue
            cfg = MPSConfig(solver=Solver.DMRG, noise_model=nm, observables=[], log_level=50)
            data = make_sequence_data(3, 2, lindblad_ops=lops, state_prep_error=spe)
            try:
                impl = create_impl(data, cfg)
            except NotImplementedError:
                print(f"  DMRG + {nm.noise_types}: refused")
                continue
            print(f"REPRODUCED: create_impl(solver=DMRG, noise_types={nm.noise_types}) returned "
                  f"{type(impl).__name__} instead of refusing")
            return 1
        print("NOT-REPRODUCED: DMRG refused every noise family tried")
        return 0
    if "_extract_omega_delta_phi[bases=" in ob:
        from emu_base.pulser_adapter import _extract_omega_delta_phi
        import itertools
        bases = ob.split("[bases=")[1].split("]")[0].split("+")
        bases = [b for b in bases if b]

        class Fake:
            def __init__(self, sig):
                self.sig = sig
                self.max_duration = 4

            def to_nested_dict(self, all_local=True, samples_type="tensor"):
                return {"Local": self.sig}
        # every combination of {all-zero, non-zero} amplitude / detuning per basis
        for pattern in itertools.product([0.0, 1.5], repeat=2 * max(len(bases), 1)):
            sig = {}
            for k, b in enumerate(bases):
                a, d = pattern[2 * k], pattern[2 * k + 1]
                sig[b] = {q: {"amp": torch.full((4,), a, dtype=torch.float64),
                              "det": torch.full((4,), d, dtype=torch.float64),
                              "phase": torch.zeros(4, dtype=torch.float64)} for q in ("q0", "q1")}
            try:
                _extract_omega_delta_phi(Fake(sig), ("q0", "q1"), [0.0, 2.0, 4.0])
            except ValueError:
                continue
            except Exception as e:
                print(f"  bases {bases}, (amp,det) levels {pattern}: {type(e).__name__}: {e}")
                continue
            print(f"REPRODUCED: samples spanning the bases {bases} with (amplitude, detuning) levels {pattern} "
                  "were accepted and drive data were returned (the other basis' drive is silently dropped)")
            return 1
        print(f"NOT-REPRODUCED: bases {bases} are refused for every zero/non-zero amplitude-detuning pattern")
        return 0
    if "SVBackend" in ob:
        from emu_sv import SVConfig, SVBackend
        from emu_base.pulser_adapter import HamiltonianType
        for kw, what in ((dict(hamiltonian_type=HamiltonianType.XY), "XY interaction"),
                         (dict(dim=3), "three-level (leakage) basis")):
            data = make_sequence_data(2, 2, **kw)
            try:
                res = SVBackend._run_from_sequence_data(data, SVConfig(observables=[], gpu=False))
            except (NotImplementedError, ValueError) as e:
                print(f"  {what}: refused ({type(e).__name__}: {e})")
                continue
            except Exception as e:
                print(f"  {what}: not refused up front; the run died late with {type(e).__name__}: {e}")
                continue
            print(f"REPRODUCED: SVBackendImpl emulated a {what} sequence and returned results "
                  f"({type(res).__name__})")
            return 1
        print("NOT-REPRODUCED: emu-sv refused both unsupported inputs")
        return 0
    p = subprocess.run([sys.executable, os.path.join(HERE, "generic.py")] + sys.argv[1:],
                       capture_output=True, text=True)
    print(p.stdout, end="")
    return p.returncode


if __name__ == "__main__":
    sys.exit(main())
