"""C23 native replay: PulserData.get_sequences on concrete matrices / cutoffs / SLM targets."""
import itertools, os, random, sys
from types import SimpleNamespace as NS
import torch


class FakeSamples:
    def __init__(self, n, D):
        self.n, self.max_duration = n, D

    def to_nested_dict(self, all_local=True, samples_type="tensor"):
        z = lambda: torch.zeros(self.max_duration, dtype=torch.float64)
        return {"Local": {"ground-rydberg": {f"q{i}": {"amp": z() + 1.0, "det": z(), "phase": z()}
                                               for i in range(self.n)}}}


def real_sequence_schedule():
    """the SLM time switch on real pulser sequences (XY mode, last atom masked), with the first global
    pulse starting at t = 0 and after a leading delay: the masked matrix applies at every query time before
    the SLM end time (including the time before the first pulse starts), the full matrix from then on"""
    import pulser
    sys.path.insert(0, os.path.dirname(os.path.abspath(__file__)))
    from native_util import patch_pulser_observable
    patch_pulser_observable()
    from emu_base import PulserData
    from emu_mps import MPSConfig
    for lead in (0, 200):
        reg = pulser.Register({f"q{i}": (7.0 * i, 0.0) for i in range(3)})
        seq = pulser.Sequence(reg, pulser.MockDevice)
        seq.declare_channel("ch0", "mw_global")
        seq.config_slm_mask([reg.qubit_ids[-1]])
        if lead:
            seq.delay(lead, "ch0")
        seq.add(pulser.Pulse.ConstantPulse(52, 3.0, 0.0, 0.0), "ch0")
        seq.add(pulser.Pulse.ConstantPulse(100, 3.0, 0.0, 0.0), "ch0")
        cfg = MPSConfig(dt=4, observables=[pulser.backend.BitStrings(evaluation_times=[1.0])], log_level=100,
                        num_gpus_to_use=0)
        pd = PulserData(sequence=seq, config=cfg, dt=cfg.dt)
        mt = seq._slm_mask_time
        end = mt[1] if len(mt) > 1 else 0.0
        for sd in pd.get_sequences():
            full = sd.interaction_matrix(float(seq.get_duration()) + 1.0)
            masked = full.clone()
            masked[2, :] = 0.0
            masked[:, 2] = 0.0
            if torch.equal(full, masked):
                print("replay error: the masked atom has no coupling in this scenario")
                return 3
            for k in range(0, int(seq.get_duration()) * 2 + 1):
                t = k / 2.0
                got = sd.interaction_matrix(t)
                want = masked if t < end else full
                if not torch.equal(got, want):
                    print(f"REPRODUCED: SLM mask on atom q2, pulser _slm_mask_time = {list(mt)} (first global pulse starts "
                          f"at {lead} ns): interaction_matrix({t}) is the {'full' if torch.equal(got, full) else 'other'} "
                          f"matrix, expected the {'masked' if t < end else 'full'} one (masked before the SLM end time "
                          f"{end}, full afterwards)")
                    return 1
    return 0


def main():
    rc = real_sequence_schedule()          # real constructor, real pulser sequences
    if rc:
        return rc
    try:
        return synthetic()
    except AttributeError as e:
        # the synthetic PulserData below is built without its constructor; a tree that adds an attribute
        # there cannot be driven this way (harness limit, not a finding)
        print(f"NOT-REPRODUCED: real-sequence SLM schedule holds; synthetic-object part skipped ({e})")
        return 0


def synthetic():
    from emu_base.pulser_adapter import PulserData, HamiltonianType
    rnd = random.Random(int(os.environ.get("VERIF_SEED", "0")))
    for trial in range(400):
        n = rnd.randint(2, 5)
        vals = [0.0, 0.5, -0.5, 1.0, -1.0, 2.0, rnd.uniform(-3, 3)]
        M = torch.zeros(n, n, dtype=torch.float64)
        for i, j in itertools.combinations(range(n), 2):
            M[i, j] = M[j, i] = rnd.choice(vals)
        cutoff = rnd.choice([0.0, 0.5, 1.0, 1.5, abs(rnd.choice(vals))])
        user = rnd.random() < 0.5
        U = M * 2.0 if user else None
        targets = sorted(rnd.sample(range(n), rnd.randint(0, n - 1)))
        reps = [rnd.randint(0, 3) for _ in range(rnd.randint(1, 3))]
        pd = object.__new__(PulserData)
        pd.qubit_ids = tuple(f"q{i}" for i in range(n))
        pd.target_times = [0.0, 2.0, 4.0]
        pd.full_interaction_matrix = U
        pd.interaction_cutoff = cutoff
        pd.slm_end_time = 7.0
        pd.lindblad_ops, pd.eigenstates = [], ["r", "g"]
        pd.hamiltonian_type = HamiltonianType.Rydberg
        pd.noise_model = NS(state_prep_error=0.0)
        pd._sequence = NS(_slm_mask_targets=[f"q{t}" for t in targets],
                          register=NS(find_indices=lambda ids: [int(s[1:]) for s in ids]))
        pd.hamiltonian = NS(noisy_samples=[
            NS(trajectory=NS(interaction_matrix=NS(as_tensor=lambda M=M: M.clone()), bad_atoms={}),
               samples=FakeSamples(n, 4), reps=r) for r in reps])
        out = list(pd.get_sequences())
        src = U if user else M
        if len(out) != sum(reps):
            print(f"REPRODUCED: reps {reps} but {len(out)} sequences were yielded")
            return 1
        for sd in out:
            full, masked = sd.interaction_matrix(100.0), sd.interaction_matrix(0.0)
            exp_full = torch.where(torch.abs(src) < cutoff, torch.zeros_like(src), src)
            exp_masked = exp_full.clone()
            for t in targets:
                exp_masked[t, :] = 0.0
                exp_masked[:, t] = 0.0
            if not torch.equal(full, exp_full):
                print(f"REPRODUCED: cutoff={cutoff}, source {'user' if user else 'register'} matrix {src.tolist()}: "
                      f"full matrix {full.tolist()} != expected {exp_full.tolist()}")
                return 1
            if not torch.equal(masked, exp_masked):
                print(f"REPRODUCED: SLM targets {targets}: masked matrix {masked.tolist()} != expected {exp_masked.tolist()}")
                return 1
    print("NOT-REPRODUCED: 400 random matrices/cutoffs (incl. entries equal to the cutoff)/SLM target sets agree")
    return 0


if __name__ == "__main__":
    sys.exit(main())
