"""C14 native replay: observables are recorded exactly once per requested time, in order, from the
state produced by the step that ends at that time.

(1) unit level: the real _get_target_times on the input of the counter-model (if any) and on a
    fixed grid: two distinct target times must never match one requested time under the
    backends' matcher |t/D - e| <= 1e-10.
(2) end to end (emu-sv and emu-mps implementations, SequenceData built directly): an Occupation
    observable requested at numpy.linspace(0, 1, 101) on a 1000 ns sequence with dt = 10: the run must
    not raise and must store exactly one value per requested time.
(3) step protocol: a recording observable and a wrapped stepper: number of solver steps
    == len(target_times) - 1, recorded times == the target times that match a request, strictly
    increasing, each taken after exactly k steps for target index k.
(4) requests within the matcher's tolerance of each other (different observables at 0.3 and 0.1+0.2, at 5e-11,
    9.99e-11, three within 9e-11; duration 1000, dt 7), both backends: every observable must be stored exactly
    once and the run must not raise (pulser: "Evaluation times must be unique up to 1e-12").
`--residual`: what the code does in the regime excluded by the separation clause's hypothesis (chains longer
    than the tolerance); informational, exit 0."""
import dataclasses
import json
import os
import sys
from types import SimpleNamespace

sys.path.insert(0, os.path.dirname(os.path.abspath(__file__)))

TOL = 1e-10


class Seq:
    def __init__(self, duration):
        self.duration = duration

    def get_duration(self, include_fall_time=False):
        return self.duration


class Times(list):
    def tolist(self):
        return list(self)


def config(requested):
    obs = SimpleNamespace(evaluation_times=list(requested))
    return SimpleNamespace(observables=[obs], with_modulation=False, default_evaluation_times=Times([1.0]))


LIN = [i * 0.01 for i in range(101)]           # == numpy.linspace(0, 1, 101)


def unit(rec):
    from emu_base.pulser_adapter import _get_target_times
    cm = (rec or {}).get("counter_model") or {}
    cases = []
    if isinstance(cm, dict) and "duration" in cm:
        req = LIN if cm.get("requested") == "linspace(0,1,101)" else list(cm.get("requested") or LIN)
        cases.append((cm["duration"], cm["dt"], req))
    cases += [(1000, 10, LIN), (5, 0.1, LIN), (100, 1, LIN), (1000, 10 - 1e-12, [0.5, 1.0])]
    for D in (10, 50, 200, 500, 2000):
        for dt in (0.1, 0.5, 1, 2, 5, 10):
            cases.append((D, dt, LIN))
    # requested times just outside / just inside the matcher's tolerance of a grid time (one distance per
    # case: every request then has a consistent neighbourhood), and rounded fractions
    for D, dt in ((300, 10), (1000, 10), (200, 7), (50, 0.5)):
        ks = (1, 3, int(D / dt) // 2, int(D / dt) - 1)
        for d in (1.5e-10, 2e-10, 5e-10, 9e-10, 1e-9, 3e-9, 5e-11, 1e-11):
            near = [k * dt / D + s * d for k in ks for s in (1, -1)]
            cases.append((D, dt, sorted({e for e in near if 0 < e < 1}) + [1.0]))
        cases.append((D, dt, [round(i / 6, 9) for i in range(7)]))
        cases.append((D, dt, [round(i / 7, 10) for i in range(8)]))
    # requested times within the matcher's tolerance of EACH OTHER, off the grid: one request to the matcher
    for D, dt in ((1000, 7), (300, 10), (1000, 10), (50, 0.5)):
        cases.append((D, dt, [0.3, 0.1 + 0.2, 0.7]))
        cases.append((D, dt, [0.1234, 0.1234 + 5e-11, 0.1234 + 9e-11, 0.77, 0.77 + 1e-11]))
        cases.append((D, dt, [1 / 3 - 2e-10, 1 / 3 - 1.5e-10, 2 / 3 + 1.5e-10, 2 / 3 + 2e-10]))
    for D, dt, req in cases:
        tt = _get_target_times(Seq(D), config(req), dt)
        for e in req:
            hits = [t for t in tt if abs(t / tt[-1] - e) <= TOL]
            if len(hits) > 1:
                print(f"REPRODUCED: _get_target_times(duration={D}, dt={dt}, {len(req)} requested times): requested "
                      f"time {e!r} is matched by {len(hits)} target times {hits!r} (matcher |t/D - e| <= 1e-10): "
                      "the observable is evaluated twice for one request")
                return 1
            if not hits:
                print(f"REPRODUCED: requested time {e!r} matched by no target time (duration={D}, dt={dt})")
                return 1
    print(f"NOT-REPRODUCED (unit): {len(cases)} inputs, one target time per requested time")
    return 0


def make_recorder(log):
    from pulser.backend import Occupation

    class Recorder(Occupation):
        """records every invocation by the backend"""

        def __call__(self, config, t, state, hamiltonian, result):
            log.append(("obs", t, counter["steps"]))
            return super().__call__(config, t, state, hamiltonian, result)
    return Recorder


counter = {"steps": 0}


def e2e_sv(D=1000, dt=10):
    import numpy as np
    from native_util import make_sequence_data, patch_pulser_observable
    patch_pulser_observable()
    from emu_base.pulser_adapter import _get_target_times
    from emu_sv import SVConfig
    from emu_sv.sv_backend_impl import SVBackendImpl
    req = list(np.linspace(0, 1, 101))
    log = []
    counter["steps"] = 0
    obs = make_recorder(log)(evaluation_times=req)
    cfg = SVConfig(dt=dt, observables=[obs], gpu=False, log_level=1000)
    tt = _get_target_times(Seq(D), cfg, dt)
    data = dataclasses.replace(make_sequence_data(n=2, steps=len(tt) - 1), target_times=tt)
    try:
        impl = SVBackendImpl(cfg, data)
        stepper = impl.stepper
        apply0 = stepper.apply

        class Counting:
            @staticmethod
            def apply(*a, **k):
                counter["steps"] += 1
                return apply0(*a, **k)

            def __getattr__(self, name):
                return getattr(stepper, name)
        impl.stepper = Counting()
        res = impl._run()
    except Exception as e:
        print(f"REPRODUCED: emu-sv on a {D} ns sequence, dt={dt}, Occupation at numpy.linspace(0,1,101): "
              f"{type(e).__name__}: {str(e)[:160]}... ({len(tt)} target times; "
              f"near-duplicates: {[(a, b) for a, b in zip(tt, tt[1:]) if b - a < 1e-6][:2]})")
        return 1
    return check_protocol("emu-sv", tt, req, log, counter["steps"], stored_times(res, obs))


def stored_times(res, obs):
    try:
        return list(res.get_result_times(obs))
    except ValueError:          # nothing stored for this observable
        return []


def check_protocol(name, tt, req, log, steps, stored):
    if steps != len(tt) - 1:
        print(f"REPRODUCED: {name}: {steps} solver steps for {len(tt)} target times")
        return 1
    called = [t for (_, t, _) in log]
    if any(not a < b for a, b in zip(called, called[1:])):
        print(f"REPRODUCED: {name}: observable not invoked in strictly increasing time order")
        return 1
    for (_, t, k) in log:
        want = [i for i, x in enumerate(tt) if x / tt[-1] == t]
        if want != [k]:
            print(f"REPRODUCED: {name}: observable invoked at t={t!r} after {k} steps; target index {want}")
            return 1
    for e in req:
        n = sum(1 for t in stored if abs(t - e) <= TOL)
        if n != 1:
            print(f"REPRODUCED: {name}: requested time {float(e)!r} has {n} stored values")
            return 1
    if len(stored) != len(req):
        print(f"REPRODUCED: {name}: {len(stored)} stored values for {len(req)} requested times")
        return 1
    print(f"NOT-REPRODUCED ({name}): {steps} steps, {len(stored)} values for {len(req)} requested times, in order, "
          "each after the step that ends at its time")
    return 0


def e2e_mps(D=200, dt=10):
    import numpy as np
    from native_util import make_sequence_data, patch_pulser_observable
    patch_pulser_observable()
    from emu_base.pulser_adapter import _get_target_times
    from emu_mps import MPSConfig
    from emu_mps.mps_backend_impl import MPSBackendImpl
    import emu_mps.mps_backend_impl as M
    req = sorted(list(np.linspace(0, 1, 21)) + [0.123])
    log = []
    counter["steps"] = 0
    obs = make_recorder(log)(evaluation_times=req)
    cfg = MPSConfig(dt=dt, observables=[obs], num_gpus_to_use=0, log_level=1000, optimize_qubit_ordering=False)
    tt = _get_target_times(Seq(D), cfg, dt)
    data = dataclasses.replace(make_sequence_data(n=3, steps=len(tt) - 1), target_times=tt)
    try:
        impl = MPSBackendImpl(cfg, data)
        impl.init()
        tc = impl.timestep_complete

        def timestep_complete():
            counter["steps"] += 1
            return tc()
        impl.timestep_complete = timestep_complete
        # fill_results runs inside timestep_complete: count the step first, as the state is final
        while not impl.is_finished():
            impl.progress()
        res = impl.results
    except Exception as e:
        print(f"REPRODUCED: emu-mps on a {D} ns sequence, dt={dt}: {type(e).__name__}: {str(e)[:200]}")
        return 1
    finally:
        try:
            os.remove(impl.autosave_file)
        except Exception:
            pass
    return check_protocol("emu-mps", tt, req, log, counter["steps"], stored_times(res, obs))


def e2e_default_times(backend="sv", D=1000, dt=10):
    """An observable with its own evaluation times must not be recorded at a *default* evaluation
    time (requested by another observable) that merely lies near one of its own times."""
    from native_util import make_sequence_data, patch_pulser_observable
    patch_pulser_observable()
    from emu_base.pulser_adapter import _get_target_times
    from pulser.backend import Energy, Occupation
    if backend != "sv":
        D = 100             # (fewer steps; pulser's own tolerance is 0.5 / D)
    own, default = [0.5], [0.5 + 0.4 / D, 1.0]
    obs1, obs2 = Occupation(evaluation_times=own), Energy()
    if backend == "sv":
        from emu_sv import SVConfig
        from emu_sv.sv_backend_impl import SVBackendImpl
        cfg = SVConfig(dt=dt, observables=[obs1, obs2], gpu=False, default_evaluation_times=default, log_level=1000)
        tt = _get_target_times(Seq(D), cfg, dt)
        data = dataclasses.replace(make_sequence_data(n=2, steps=len(tt) - 1), target_times=tt)
        res = SVBackendImpl(cfg, data)._run()
    else:
        from emu_mps import MPSConfig
        from emu_mps.mps_backend_impl import MPSBackendImpl
        cfg = MPSConfig(dt=dt, observables=[obs1, obs2], num_gpus_to_use=0, default_evaluation_times=default,
                        log_level=1000, optimize_qubit_ordering=False)
        tt = _get_target_times(Seq(D), cfg, dt)
        data = dataclasses.replace(make_sequence_data(n=3, steps=len(tt) - 1), target_times=tt)
        impl = MPSBackendImpl(cfg, data)
        try:
            impl.init()
            while not impl.is_finished():
                impl.progress()
        finally:
            try:
                os.remove(impl.autosave_file)
            except Exception:
                pass
        res = impl.results
    stored = [float(t) for t in stored_times(res, obs1)]
    if stored != own:
        print(f"REPRODUCED: emu-{backend}: Occupation requested at {own} only (another observable uses the default "
              f"times {default}) is stored at {stored}: a time it did not request")
        return 1
    print(f"NOT-REPRODUCED (emu-{backend}, default times): Occupation requested at {own} stored at {stored}")
    return 0


CLOSE_REQUESTS = [
    # (duration, dt, [time of observable 1, time of observable 2, ...]): requests of DIFFERENT observables within
    # the matcher's tolerance of each other and off the grid -- one request for the matcher
    (1000, 7, [0.3, 0.1 + 0.2]),                     # one rounding error apart
    (1000, 7, [0.3, 0.3 + 5e-11]),                   # 5e-11 apart
    (1000, 7, [0.45, 0.45 + 1e-10 - 1e-13]),         # just inside the tolerance
    (1000, 7, [0.6, 0.6 + 4e-11, 0.6 + 9e-11]),      # three requests, diameter below the tolerance
]
# The regime EXCLUDED by the hypothesis of the separation clause (contracts/timegrid.py: separated): a request
# whose neighbours (requests / grid times within the tolerance of it) are not within the tolerance of one
# another.  `--residual` shows what the code does there; it is not part of the replay's verdict.
RESIDUAL = [
    (1000, 7, [0.3, 0.3 + 0.8e-10, 0.3 + 1.6e-10]),  # chain of three requests, diameter 1.6e-10
    (1000, 10, [0.3 + 0.5e-10, 0.3 + 1.2e-10]),      # grid time 300, a request on it, one 1.2e-10 off it
]


def run_observables(backend, D, dt, times):
    """one observable per entry of `times`, requested at that time only -> (target times, [(tag, requested time,
    stored times)]); raises what the backend raises"""
    from native_util import make_sequence_data, patch_pulser_observable
    patch_pulser_observable()
    from emu_base.pulser_adapter import _get_target_times
    from pulser.backend import Energy, EnergyVariance, Occupation
    kinds = [Occupation, Energy, EnergyVariance]
    obs = [kinds[i % 3](evaluation_times=[t], tag_suffix=str(i)) for i, t in enumerate(times)]
    if backend == "sv":
        from emu_sv import SVConfig
        from emu_sv.sv_backend_impl import SVBackendImpl
        cfg = SVConfig(dt=dt, observables=obs, gpu=False, log_level=1000)
        tt = _get_target_times(Seq(D), cfg, dt)
        data = dataclasses.replace(make_sequence_data(n=2, steps=len(tt) - 1), target_times=tt)
        res = SVBackendImpl(cfg, data)._run()
    else:
        from emu_mps import MPSConfig
        from emu_mps.mps_backend_impl import MPSBackendImpl
        cfg = MPSConfig(dt=dt, observables=obs, num_gpus_to_use=0, log_level=1000, optimize_qubit_ordering=False)
        tt = _get_target_times(Seq(D), cfg, dt)
        data = dataclasses.replace(make_sequence_data(n=2, steps=len(tt) - 1), target_times=tt)
        impl = None
        try:
            impl = MPSBackendImpl(cfg, data)
            impl.init()
            while not impl.is_finished():
                impl.progress()
            res = impl.results
        finally:
            try:
                os.remove(impl.autosave_file)
            except Exception:
                pass
    return tt, [(o.tag, t, [float(x) for x in stored_times(res, o)]) for o, t in zip(obs, times)]


def e2e_close_requests(backend="sv", cases=None, verdict="REPRODUCED"):
    """Observables whose evaluation times are within the matcher's tolerance of each other (and off the grid):
    each must be recorded exactly once, at a time that matches its request (and the run must not raise)."""
    rc = 0
    for D, dt, times in (cases or CLOSE_REQUESTS):
        what = (f"emu-{backend}, duration={D}, dt={dt}, one observable at each of {times!r} "
                f"(spread {max(times) - min(times):.3g})")
        from emu_base.pulser_adapter import _get_target_times
        tt = _get_target_times(Seq(D), config(times), dt)
        near = [float(t) for t in tt if min(abs(t / tt[-1] - e) for e in times) <= 3 * TOL]
        try:
            tt, stored = run_observables(backend, D, dt, times)
        except Exception as e:
            print(f"{verdict}: {what}: {type(e).__name__}: {' '.join(str(e).split())[:150]}... "
                  f"(target times near the requests: {near!r})")
            rc = 1
            continue
        bad = [(tag, t, v) for tag, t, v in stored if len(v) != 1 or abs(v[0] - t) > TOL]
        if bad:
            print(f"{verdict}: {what}: target times near the requests: {near!r}; "
                  + "; ".join(f"{tag} requested at {t!r} is stored {len(v)} times {v!r}" for tag, t, v in bad))
            rc = 1
        else:
            print(f"NOT-{verdict} ({what}): target times near the requests {near!r}; every observable stored once: "
                  f"{[v[0] for _, _, v in stored]!r}")
    return rc


def main():
    rec = None
    if "--residual" in sys.argv:        # demonstration only (excluded regime), always exit 0
        for backend in ("sv", "mps"):
            e2e_close_requests(backend, RESIDUAL, verdict="RESIDUAL-REGIME-FAILS")
        return 0
    if len(sys.argv) > 1 and os.path.exists(sys.argv[1]):
        with open(sys.argv[1]) as f:
            rec = json.load(f)
    name = (rec or {}).get("obligation", "")
    # the part of the replay that concerns the failed obligation (all parts without a record)
    if "_is_evaluation_time" in name:
        parts = [lambda: e2e_default_times("mps" if "MPSBackendImpl" in name else "sv")]
    elif "_get_target_times" in name and "/fp/" in name:
        parts = [lambda: unit(rec)]
    elif "separation-without-chain-hypothesis" in name:
        # separation for EVERY requested time: the listed residual inputs (open known finding F20: chains longer
        # than the tolerance) are run and shown, but only a failure OUTSIDE them is a reproduction
        def known_residual():
            for backend in ("sv", "mps"):
                e2e_close_requests(backend, RESIDUAL, verdict="KNOWN-FINDING-F20-INPUT-FAILS")
            return 0
        parts = [known_residual, lambda: unit(rec), e2e_sv, lambda: e2e_close_requests("sv"),
                 lambda: e2e_close_requests("mps")]
    elif "_get_target_times" in name:
        parts = [lambda: unit(rec), e2e_sv, lambda: e2e_close_requests("sv"), lambda: e2e_close_requests("mps")]
    elif "MPSBackendImpl" in name:
        parts = [e2e_mps, lambda: e2e_default_times("mps")]
    elif "SVBackendImpl" in name:
        parts = [e2e_sv, lambda: e2e_default_times("sv")]
    else:
        parts = [lambda: unit(rec), e2e_sv, e2e_mps, lambda: e2e_default_times("sv"),
                 lambda: e2e_default_times("mps"), lambda: e2e_close_requests("sv"),
                 lambda: e2e_close_requests("mps")]
    rc = 0
    for p in parts:
        rc |= p()
    return 1 if rc else 0


if __name__ == "__main__":
    sys.exit(main())
