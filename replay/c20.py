"""C20/C22 native replay: real PCHIP1D against the standard PCHIP (SciPy) and its shape properties."""
import json, os, random, sys
import numpy as np
import torch


def main():
    seed = int(os.environ.get("VERIF_SEED", "0"))
    rnd = random.Random(seed)
    from emu_base.math.pchip_torch import PCHIP1D
    from scipy.interpolate import PchipInterpolator
    cases = [([0., 1., 2., 3.], [0., 0., 1., 3.]), ([0., 1., 2., 3.], [3., 1., 0., 0.]),
             ([0., 1., 3., 4.], [1., 1., 1., 2.]), ([0., 2., 3.], [0., 0., 5.])]
    for t in range(3000):
        n = rnd.randint(2, 7)
        x = sorted(rnd.sample(range(0, 40), n))
        y = [rnd.choice([0., 0., 1., 2., -1., rnd.uniform(-3, 3)]) for _ in range(n)]
        cases.append(([float(v) for v in x], y))
        # the same knot pattern at other scales, and nearly uniform grids: shape-preserving
        # interpolation must not depend on the unit of x
        sc = rnd.choice([1e-3, 1e-10, 1e6])
        cases.append(([float(v) * sc for v in x], y))
        cases.append(([k * (1.0 + 3e-6 * rnd.random()) for k in range(1, n + 1)], y))
    for x, y in cases:
        xt, yt = torch.tensor(x, dtype=torch.float64), torch.tensor(y, dtype=torch.float64)
        p = PCHIP1D(xt, yt)
        ref = PchipInterpolator(np.array(x), np.array(y), extrapolate=True)
        span = x[-1] - x[0]
        xq = np.linspace(x[0] - 0.1 * span, x[-1] + 0.1 * span, 97)
        got = p(torch.tensor(xq)).numpy()
        exp = ref(xq)
        if not np.allclose(got, exp, rtol=1e-7, atol=1e-9 * max(1.0, float(np.max(np.abs(y))))):
            k = int(np.argmax(np.abs(got - exp)))
            print(f"REPRODUCED: x={x} y={y}: PCHIP1D({xq[k]:.4f}) = {got[k]:.6g}, standard PCHIP (SciPy) = {exp[k]:.6g}")
            return 1
        inside = (xq >= x[0]) & (xq <= x[-1])
        for i in range(len(x) - 1):
            m = (xq >= x[i]) & (xq <= x[i + 1])
            lo, hi = min(y[i], y[i + 1]), max(y[i], y[i + 1])
            if m.any() and (got[m].min() < lo - 1e-9 or got[m].max() > hi + 1e-9):
                print(f"REPRODUCED: x={x} y={y}: interpolant leaves [{lo},{hi}] on [{x[i]},{x[i+1]}]: "
                      f"range [{got[m].min():.6g},{got[m].max():.6g}]")
                return 1
    print(f"NOT-REPRODUCED: {len(cases)} data sets agree with the standard PCHIP and stay between knot values")
    return 0


def fp_case(path, repo_root):
    """a bounded-float obligation: re-run the recorded case (data set, dtype, 2**k scaling) natively"""
    import json
    sys.path.insert(0, os.path.dirname(os.path.abspath(__file__)))
    import c20_fp
    rec = json.load(open(path))
    cm = rec.get("counter_model") or {}
    only = {k: cm[k] for k in ("data", "dtype", "exponent") if k in cm} or None
    out = c20_fp.run(repo_root, "thorough", only)
    if out["fails"]:
        print(f"REPRODUCED: {out['fails']}")
        return 1
    print(f"NOT-REPRODUCED: {out['runs']} native floating-point runs behave")
    return 0


if __name__ == "__main__":
    if len(sys.argv) > 1 and os.path.exists(sys.argv[1]) and "/fp/" in open(sys.argv[1]).read(3000):
        sys.exit(fp_case(sys.argv[1], os.path.realpath(sys.argv[2]) if len(sys.argv) > 2 else os.getcwd()))
    sys.exit(main())
