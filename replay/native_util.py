"""Helpers for native replays (real torch + pulser, /venv/bin/python)."""
import inspect
import torch


def patch_pulser_observable():
    """pulser-core 1.9.1 made `default_aggregation_method` a required keyword of
    Observable.__init__; until the repo passes it (C31) the *harness* supplies it so that
    backend objects can be constructed at all.  Only the harness is patched, not /repo."""
    try:
        from pulser.backend.observable import Observable
        from pulser.backend.results import AggregationMethod
    except Exception:
        return False
    sig = inspect.signature(Observable.__init__)
    p = sig.parameters.get("default_aggregation_method")
    if p is None or p.default is not inspect._empty:
        return False
    orig = Observable.__init__
    if getattr(orig, "_verif_patched", False):
        return True

    def init(self, *a, **k):
        k.setdefault("default_aggregation_method", AggregationMethod.SKIP)
        return orig(self, *a, **k)
    init._verif_patched = True
    Observable.__init__ = init
    return True


def make_sequence_data(n=3, steps=2, lindblad_ops=None, hamiltonian_type=None, bad_atoms=None,
                       state_prep_error=0.0, matrix=None, dim=2, omega=None, delta=None, phi=None):
    from emu_base.pulser_adapter import SequenceData, HamiltonianType, _InteractionMatrixCallable
    if matrix is None:
        matrix = torch.zeros(n, n, dtype=torch.float64)
        for i in range(n - 1):
            matrix[i, i + 1] = matrix[i + 1, i] = 1.0
    z = lambda: torch.zeros(steps, n, dtype=torch.complex128)
    return SequenceData(
        omega=omega if omega is not None else z() + 1.0, delta=delta if delta is not None else z(),
        phi=phi if phi is not None else z(),
        interaction_matrix=_InteractionMatrixCallable(matrix, matrix, 0.0),
        qubit_ids=tuple(f"q{i}" for i in range(n)),
        bad_atoms=tuple(bad_atoms) if bad_atoms is not None else tuple([False] * n),
        lindblad_ops=lindblad_ops or [], state_prep_error=state_prep_error,
        target_times=[10.0 * k for k in range(steps + 1)],
        eigenstates=["r", "g"] if dim == 2 else ["r", "g", "x"],
        hamiltonian_type=hamiltonian_type or HamiltonianType.Rydberg)
