"""Native scenarios for C25 beyond the permutation clauses (used by replay/c25.py):

  units          extended_mps_factors / extended_mpo_factors on random chains, physical dimension 2 and 3
  leakage        emu-mps, 3 levels (with / without leakage jump operators) + badly prepared atoms, qubit ordering
                 off / on, against the run of the same sequence without the bad atoms
  sv             emu-sv without jump operators: bad atoms stay in |g>, the others evolve as without them
  known findings F24 (emu-sv: jump operators still act on bad atoms), F25 (emu-mps: fewer than two
                 well-prepared atoms): inputs printed as KNOWN-FINDING-Fxx-INPUT-FAILS, never part of the verdict
"""
import random
import traceback

import torch

import perm_native as N


def chain(n, w=9.0):
    m = torch.zeros(n, n, dtype=torch.float64)
    for i in range(n):
        for j in range(i + 1, n):
            m[i, j] = m[j, i] = w / (j - i) ** 6
    return m


def drives(steps, n, scale=12.0):
    om = torch.tensor([[scale * (1.0 + 0.2 * k) * (1 + 0.1 * t) for k in range(n)] for t in range(steps)],
                      dtype=torch.complex128)
    de = torch.tensor([[0.7 * (k + 1) * (1 + 0.5 * t) for k in range(n)] for t in range(steps)], dtype=torch.complex128)
    ph = torch.tensor([[0.05 * (k + 1) * (1 + t) for k in range(n)] for t in range(steps)], dtype=torch.complex128)
    return om, de, ph


def sequence(n, steps, matrix, bad, dim=2, lind=None, restrict=False):
    """SequenceData of the n-atom register with the bad-atom mask `bad`, or (restrict) of the same sequence on the
    well-prepared atoms only (no state-preparation error)"""
    from native_util import make_sequence_data
    om, de, ph = drives(steps, n)
    if restrict:
        keep = [k for k in range(n) if not bad[k]]
        return make_sequence_data(len(keep), steps, matrix=matrix[keep][:, keep].clone(), omega=om[:, keep].clone(),
                                  delta=de[:, keep].clone(), phi=ph[:, keep].clone(), dim=dim, lindblad_ops=lind)
    return make_sequence_data(n, steps, matrix=matrix.clone(), omega=om, delta=de, phi=ph, dim=dim, lindblad_ops=lind,
                              bad_atoms=bad, state_prep_error=0.1)


def observables(times):
    from pulser.backend import CorrelationMatrix, Energy, Occupation
    return [Occupation(evaluation_times=times), Energy(evaluation_times=times), CorrelationMatrix(evaluation_times=times)]


def mps_run(sd, optimize, times=(0.0, 0.5, 1.0), seed=11):
    from emu_mps import MPSBackend, MPSConfig
    import emu_mps.mps_backend_impl as M
    random.seed(seed)
    torch.manual_seed(seed)
    cfg = MPSConfig(observables=observables(list(times)), optimize_qubit_ordering=optimize, log_level=50)
    impl = M.create_impl(sd, cfg)
    impl.init()
    res = MPSBackend._run(impl)
    return impl, impl.permute_results(res, optimize)


def sv_run(sd, times=(0.0, 0.5, 1.0)):
    from emu_sv import SVConfig
    from emu_sv.sv_backend_impl import SVBackendImpl
    cfg = SVConfig(observables=observables(list(times))[:1], log_level=50, gpu=False)
    impl = SVBackendImpl(cfg, sd)
    return impl, impl._run()


def where_exc(e):
    tb = traceback.extract_tb(e.__traceback__)
    return " <- ".join(f"{f.name}:{f.lineno}" for f in reversed(tb[-3:]))


def embed(vec, bad):
    """values of the good atoms at their register positions, 0 for the bad ones"""
    out = torch.zeros(len(bad), dtype=torch.float64)
    out[[k for k in range(len(bad)) if not bad[k]]] = torch.as_tensor(vec, dtype=torch.float64)
    return out


def compare(res, ref, bad, what, tol=1e-8):
    """results with the bad atoms vs results of the sequence without them"""
    keep = [k for k in range(len(bad)) if not bad[k]]
    for t in range(len(res.occupation)):
        a, b = torch.as_tensor(res.occupation[t], dtype=torch.float64), embed(ref.occupation[t], bad)
        for k in range(len(bad)):
            if bad[k] and abs(float(a[k])) > 1e-12:
                return f"{what}: badly prepared atom {k} has occupation {float(a[k]):.3e} at evaluation {t} (must stay in |g>)"
        if not torch.allclose(a, b, atol=tol):
            return (f"{what}: occupations at evaluation {t} {[round(float(x), 6) for x in a]} differ from the run without "
                    f"the bad atoms {[round(float(x), 6) for x in b]}")
        ea, eb = float(torch.as_tensor(res.energy[t]).real), float(torch.as_tensor(ref.energy[t]).real)
        if abs(ea - eb) > tol * max(1.0, abs(eb)):
            return f"{what}: energy at evaluation {t} {ea!r} differs from the run without the bad atoms {eb!r}"
        ca = torch.as_tensor(res.correlation_matrix[t]).real.to(torch.float64)[keep][:, keep]
        cb = torch.as_tensor(ref.correlation_matrix[t]).real.to(torch.float64)
        if not torch.allclose(ca, cb, atol=tol):
            return f"{what}: correlation matrix of the good atoms at evaluation {t} differs from the run without the bad atoms"
    return None


# ---- unit level: the padding helpers ---------------------------------------------------------------
def padding_units(seed=0):
    """first failure per helper (mps, mpo, centre index)"""
    found = {}
    for kind in ("mps", "mpo", "centre"):
        m = _padding_units(seed, kind)
        if m:
            found[kind] = m
    return list(found.values())


def _padding_units(seed, only):
    from emu_mps.utils import extended_mpo_factors, extended_mps_factors, get_extended_site_index
    rnd = random.Random(seed)
    for trial in range(60):
        d = rnd.choice([2, 3])
        n = rnd.randint(1, 7)
        where = [rnd.random() < 0.6 for _ in range(n)]
        m = sum(where)
        bonds = [1] + [rnd.randint(1, 4) for _ in range(max(m - 1, 0))] + [1]
        for kind in ("mps", "mpo"):
            if kind != only:
                continue
            shape = (lambda k: (bonds[k], d, bonds[k + 1])) if kind == "mps" else (lambda k: (bonds[k], d, d, bonds[k + 1]))
            given = [torch.rand(*shape(k), dtype=torch.float64).to(torch.complex128) for k in range(m)]
            fn = extended_mps_factors if kind == "mps" else extended_mpo_factors
            what = f"extended_{kind}_factors(physical dimension {d}, where={where}, bonds {bonds[:m + 1]})"
            try:
                out = fn(list(given), torch.tensor(where))
            except Exception as e:
                return f"{what}: {type(e).__name__}: {e}"
            if len(out) != n:
                return f"{what}: {len(out)} factors for {n} positions"
            k = 0
            for j in range(n):
                f = out[j]
                if where[j]:
                    if f is not given[k]:
                        return f"{what}: position {j} does not hold the given factor {k} itself"
                    k += 1
                    continue
                if m and any(s != d for s in f.shape[1:-1]):
                    return (f"{what}: the new factor at position {j} has shape {tuple(f.shape)}: physical dimension "
                            f"{tuple(f.shape[1:-1])} instead of {d}")
                b0, b1 = f.shape[0], f.shape[-1]
                eye = torch.eye(b0, b1, dtype=torch.complex128)
                want = torch.zeros_like(f)
                if kind == "mps":
                    want[:, 0, :] = eye
                else:
                    for s in range(f.shape[1]):
                        want[:, s, s, :] = eye
                if b0 != b1 or not torch.equal(f, want):
                    return f"{what}: the new factor at position {j} is not {'|0>' if kind == 'mps' else 'the identity'} (x) identity on the bond"
            for j in range(n - 1):
                if out[j].shape[-1] != out[j + 1].shape[0]:
                    return f"{what}: bond dimensions of positions {j}, {j + 1} do not match"
            if n and (out[0].shape[0] != 1 or out[-1].shape[-1] != 1):
                return f"{what}: outer bond dimensions are not 1"
        # the centre of the padded state
        if m and only == "centre":
            c = rnd.randrange(m)
            e = get_extended_site_index(torch.tensor(where), c)
            if not where[e] or sum(where[:e]) != c:
                return f"get_extended_site_index(where={where}, {c}) = {e}: not the {c}-th True position"
    return None


def fill_results_unit():
    """what MPSBackendImpl.fill_results hands the observables when there are dark sites: one factor per register
    site, dark sites in |0> with the state's physical dimension, the centre at the site of the reduced centre"""
    import emu_mps.mps_backend_impl as M
    for dim in (2, 3):
        for bad in ([True, False, False, True], [False, True, False, False], [False, False, True, True]):
            what = f"fill_results, {dim} levels, bad atoms {bad}"
            from emu_mps import MPSConfig
            from pulser.backend import Occupation
            sd = sequence(4, 2, chain(4), bad, dim=dim)
            cfg = MPSConfig(observables=[Occupation(evaluation_times=[0.0, 1.0])], optimize_qubit_ordering=False, log_level=50)
            impl = M.create_impl(sd, cfg)
            seen = []
            orig = M.MPS

            class Spy(orig):
                def __init__(self, factors, **kw):
                    seen.append((list(factors), dict(kw)))
                    super().__init__(factors, **kw)
            try:
                impl.init()
                filt = [bool(x) for x in impl.well_prepared_qubits_filter]
                good = [k for k in range(4) if filt[k]]
                for centre in range(len(good)):
                    impl.state.orthogonalize(centre)
                    del seen[:]
                    # fill_results stores at t = 0 again: start from an empty result store
                    impl.results = type(impl.results)(atom_order=impl.results.atom_order,
                                                      total_duration=impl.results.total_duration)
                    M.MPS = Spy
                    try:
                        impl.fill_results()
                    finally:
                        M.MPS = orig
                    padded = [s for s in seen if len(s[0]) == 4]
                    if not padded:
                        return f"{what}: no state with one factor per register site was built for the observables"
                    factors, kw = padded[-1]
                    if kw.get("orthogonality_center") != good[centre]:
                        return (f"{what}: reduced centre {centre} (site filter {filt}) was handed on as "
                                f"{kw.get('orthogonality_center')}, the site of that factor is {good[centre]}")
                    for k in range(4):
                        f = factors[k]
                        if f.shape[1] != dim:
                            return f"{what}: site {k} of the padded state has physical dimension {f.shape[1]}"
                        if not filt[k] and not (bool((f[:, 0, :] == torch.eye(f.shape[0], f.shape[2])).all())
                                                and bool(f[:, 1:, :].abs().max() == 0)):
                            return f"{what}: dark site {k} of the padded state is not |0> (x) identity"
            except Exception as e:
                M.MPS = orig
                return f"{what}: {type(e).__name__}: {' '.join(str(e).split())[:160]} ({where_exc(e)})"
    return None


# ---- emu-mps with a leakage level -------------------------------------------------------------------
def leak_ops(rate=0.3):
    """3x3 jump operators in the emulator basis (g, r, x): leakage r -> x and decay x -> g"""
    a = torch.zeros(3, 3, dtype=torch.complex128)
    a[2, 1] = rate ** 0.5
    b = torch.zeros(3, 3, dtype=torch.complex128)
    b[0, 2] = (rate / 2) ** 0.5
    return [a, b]


def leakage(steps=6):
    msgs = []
    matrix = N.chain_matrix((9.0, 7.0, 8.0))                  # chain 0-2-1-3: the optimiser reorders
    for bad in ([False, True, False, False], [True, False, False, True]):
        for lind in (None, leak_ops()):
            for optimize in (False, True):
                what = (f"emu-mps, 3 levels{' + leakage jump operators' if lind else ''}, bad atoms {bad}, "
                        f"optimize_qubit_ordering={optimize}")
                try:
                    impl, res = mps_run(sequence(4, steps, matrix, bad, dim=3, lind=lind), optimize)
                except Exception as e:
                    msgs.append(f"{what}: {type(e).__name__}: {' '.join(str(e).split())[:160]} ({where_exc(e)})")
                    continue
                if lind is not None and optimize:
                    # the reduced chain may be ordered differently from the chain of the restricted register, so the
                    # Monte-Carlo trajectories differ: only the bad atoms can be compared
                    for t in range(len(res.occupation)):
                        for k in range(4):
                            if bad[k] and abs(float(res.occupation[t][k])) > 1e-12:
                                msgs.append(f"{what}: badly prepared atom {k} has occupation {float(res.occupation[t][k]):.3e}")
                    continue
                _, ref = mps_run(sequence(4, steps, matrix, bad, dim=3, lind=lind, restrict=True), optimize)
                m = compare(res, ref, bad, what + f" (perm {impl.qubit_permutation.tolist()})", tol=1e-6)
                if m:
                    msgs.append(m)
    return msgs


# ---- emu-sv -----------------------------------------------------------------------------------------
def sv_units(steps=3):
    """SVBackendImpl.init_dark_qubits, clause by clause: drives and couplings of a bad atom are zero at every
    step / time, every other entry is what the sequence says; the filter attribute is the bad mask"""
    from emu_sv import SVConfig
    from emu_sv.sv_backend_impl import SVBackendImpl
    for n, bad in ((3, [False, True, False]), (4, [True, False, False, True]), (3, [False, False, False]),
                   (2, [True, True])):
        what = f"SVBackendImpl.init_dark_qubits, bad atoms {bad}"
        sd = sequence(n, steps, chain(n), bad)
        om, de, ph = drives(steps, n)
        impl = SVBackendImpl(SVConfig(observables=observables([1.0])[:1], log_level=50, gpu=False), sd)
        f = impl.well_prepared_qubits_filter
        if f is None or [bool(x) for x in f] != bad:
            return f"{what}: the filter attribute is {f} (emu-sv keeps the BAD mask there)"
        for name, want in (("omega", om), ("delta", de), ("phi", ph)):
            got = getattr(impl, name)
            for k in range(n):
                col = got[:, k]
                if bad[k] and bool(col.abs().max() > 0):
                    return f"{what}: {name} of bad atom {k} is {col.tolist()} (must be 0 at every step)"
                if not bad[k] and not torch.equal(col, want[:, k]):
                    return f"{what}: {name} of well-prepared atom {k} was changed to {col.tolist()}"
        for t in (0.0, 15.0):
            mat = impl.interaction_matrix(t)
            ref = chain(n)
            for i in range(n):
                for j in range(n):
                    want = 0.0 if (bad[i] or bad[j]) else float(ref[i, j])
                    if float(mat[i, j]) != want:
                        return (f"{what}: interaction_matrix({t})[{i}, {j}] = {float(mat[i, j])!r}, expected {want!r} "
                                "(rows and columns of bad atoms zero, every other entry unchanged)")
    return None


def sv_without_jumps(steps=6):
    msgs = []
    m = sv_units()
    if m:
        msgs.append(m)
    for n, bad in ((3, [False, True, False]), (4, [True, False, True, False]), (3, [True, True, True]),
                   (3, [True, False, True])):
        what = f"emu-sv, no jump operators, bad atoms {bad}"
        try:
            impl, res = sv_run(sequence(n, steps, chain(n), bad))
            if sum(not b for b in bad) >= 1:
                _, ref = sv_run(sequence(n, steps, chain(n), bad, restrict=True))
                refocc = [embed(o, bad) for o in ref.occupation]
            else:
                refocc = [torch.zeros(n, dtype=torch.float64) for _ in res.occupation]
        except Exception as e:
            msgs.append(f"{what}: {type(e).__name__}: {' '.join(str(e).split())[:160]} ({where_exc(e)})")
            continue
        for t, (a, b) in enumerate(zip(res.occupation, refocc)):
            a = torch.as_tensor(a, dtype=torch.float64)
            if not torch.allclose(a, b, atol=1e-8):
                msgs.append(f"{what}: occupations at evaluation {t} {[round(float(x), 6) for x in a]} differ from the run "
                            f"without the bad atoms {[round(float(x), 6) for x in b]}")
                break
    return msgs


def depolarizing(rate):
    c = (rate / 4) ** 0.5
    sx = torch.tensor([[0, 1], [1, 0]], dtype=torch.complex128)
    sy = torch.tensor([[0, -1j], [1j, 0]], dtype=torch.complex128)
    sz = torch.tensor([[1, 0], [0, -1]], dtype=torch.complex128)
    return [c * sx, c * sy, c * sz]


def known_f24(steps=6):
    """open known finding F24: emu-sv applies the jump operators to badly prepared atoms too"""
    bad = [False, True, False]
    rate = 0.5
    what = (f"emu-sv, 3 atoms, depolarizing_rate={rate} (jump operators sqrt(rate/4) sigma_x,y,z), atom 1 badly prepared, "
            f"{steps} steps of 10 ns")
    try:
        _, res = sv_run(sequence(3, steps, chain(3), bad, lind=depolarizing(rate)))
        _, ref = sv_run(sequence(3, steps, chain(3), bad, lind=depolarizing(rate), restrict=True))
        a, b = torch.as_tensor(res.occupation[-1], dtype=torch.float64), embed(ref.occupation[-1], bad)
        if abs(float(a[1])) > 1e-12 or not torch.allclose(a, b, atol=1e-8):
            print(f"KNOWN-FINDING-F24-INPUT-FAILS: {what}: final occupations {[round(float(x), 6) for x in a]}, without the "
                  f"bad atom {[round(float(x), 6) for x in b]}: the bad atom is excited to {float(a[1]):.4e} by the jump operators")
        else:
            print(f"KNOWN-FINDING-F24-INPUT-PASSES: {what}: the bad atom stays at 0 and the others agree "
                  "(F24 looks repaired: update known_findings.json)")
    except Exception as e:
        print(f"KNOWN-FINDING-F24-INPUT-FAILS: {what}: {type(e).__name__}: {' '.join(str(e).split())[:160]}")


def known_f25(steps=3):
    """open known finding F25: emu-mps refuses sequences with fewer than two well-prepared atoms"""
    for bad in ([True, True, False], [True, True, True]):
        what = f"emu-mps, 3 atoms, bad atoms {bad} ({sum(not b for b in bad)} well prepared)"
        for optimize in (False, True):
            try:
                _, res = mps_run(sequence(3, steps, chain(3), bad), optimize, times=(1.0,))
                print(f"KNOWN-FINDING-F25-INPUT-PASSES: {what}, optimize_qubit_ordering={optimize}: final occupations "
                      f"{[round(float(x), 6) for x in res.occupation[-1]]} (F25 looks repaired: update known_findings.json)")
            except Exception as e:
                print(f"KNOWN-FINDING-F25-INPUT-FAILS: {what}, optimize_qubit_ordering={optimize}: {type(e).__name__}: "
                      f"{' '.join(str(e).split())[:120]} ({where_exc(e)})")


def sv_trajectories_do_not_share_the_matrix(n_traj=6):
    """emu-sv through the real trajectory loop: a user-supplied interaction matrix, state-preparation errors and
    several trajectories.  Each trajectory zeroes the couplings of ITS bad atoms; the matrix the next trajectory
    starts from must still be the configured one (whatever is zeroed must be a per-trajectory copy)."""
    import pulser
    from emu_base import PulserData
    from emu_sv import SVConfig
    from emu_sv.sv_backend import SVBackend
    from pulser.backend import Occupation
    n = 4
    reg = pulser.Register({f"q{i}": (7.0 * i, 0.0) for i in range(n)})
    seq = pulser.Sequence(reg, pulser.MockDevice)
    seq.declare_channel("ch0", "rydberg_global")
    seq.add(pulser.Pulse.ConstantPulse(60, 4.0, 0.5, 0.0), "ch0")
    user = torch.tensor([[0.0, 3.0, 1.0, 0.5], [3.0, 0.0, 2.0, 1.5], [1.0, 2.0, 0.0, 2.5], [0.5, 1.5, 2.5, 0.0]], dtype=torch.float64)
    import random as _r
    _r.seed(5)
    torch.manual_seed(5)
    import numpy as _np
    _np.random.seed(5)
    cfg = SVConfig(dt=10, observables=[Occupation(evaluation_times=[1.0])], log_level=50, gpu=False, n_trajectories=n_traj,
                   noise_model=pulser.NoiseModel(state_prep_error=0.4), interaction_matrix=user.tolist())
    pd = PulserData(sequence=seq, config=cfg, dt=cfg.dt)
    masks = []
    for k, sd in enumerate(pd.get_sequences()):
        before = sd.interaction_matrix(float(sd.target_times[-1])).clone().to(torch.float64)
        if not torch.equal(before, user):
            return [f"emu-sv, configured interaction matrix, state_prep_error=0.4, trajectory {k} (bad atoms of the earlier "
                    f"trajectories: {masks}): the matrix this trajectory STARTS from is no longer the configured one "
                    f"(rows/columns {[i for i in range(n) if before[i].abs().sum() == 0]} are zero): trajectories share one tensor"]
        masks.append([i for i, b in enumerate(sd.bad_atoms) if b])
        SVBackend._run_from_sequence_data(sd, cfg)
    if not any(masks):
        return []          # no bad atom drawn: scenario void on this tree
    return []

