"""
C26 native falsifier, noisy part (adapted from the demonstration of seed C26-c, written by an independent
sub-agent): resuming from ANY autosave a noisy emu-mps run can write gives the same trajectory as the
uninterrupted run.  Points tested: every call of save_simulation that does not come from progress() (a
snapshot taken from anywhere else is taken mid-sweep / mid-jump), the points right before and after every
quantum jump, and an evenly spaced sample of the rest (all of them with C26_NOISY_ALL=1).

A noisy (Monte-Carlo wave function) run is made deterministic by seeding python's
`random` module.  The uninterrupted reference run records, at every call of
`MPSBackendImpl.save_simulation` (= every point at which an autosave can be written),
the state of the random generator.  Then, for every such point k:

  * the run is repeated, an autosave is forced at point k and the process is
    "killed" (exception) right after that autosave has been written;
  * the random generator is put in the state the reference run had at point k;
  * the run is resumed from the autosave file with `MPSBackend.resume`.

The resumed run must reproduce the reference results (values, times, atom order)
and must remove the autosave file.

exit code 0 = property holds at every autosave point, 1 = violated.
"""

import logging
import os
import random
import sys
import tempfile
import time
import warnings

import numpy as np
import pulser
import torch
from pulser.backend import Energy, Occupation

from emu_mps import MPSBackend, MPSConfig
from emu_mps.mps_backend_impl import MPSBackendImpl, NoisyMPSBackendImpl

warnings.filterwarnings("ignore")

SEED = 7
DT = 10
DURATION = 160


class Killed(Exception):
    pass


def _build_sequence() -> pulser.Sequence:
    reg = pulser.Register.from_coordinates(
        [(0.0, 0.0), (7.0, 0.0), (14.0, 0.0)], prefix="q"
    )
    seq = pulser.Sequence(reg, pulser.devices.MockDevice)
    seq.declare_channel("ch", "rydberg_global")
    seq.add(
        pulser.Pulse.ConstantAmplitude(
            amplitude=2 * np.pi,
            detuning=pulser.waveforms.RampWaveform(DURATION, -3.0, 6.0),
            phase=0.0,
        ),
        "ch",
    )
    return seq


_SEQUENCE = _build_sequence()


def make_sequence() -> pulser.Sequence:
    return _SEQUENCE


def make_config() -> MPSConfig:
    times = [i / 8 for i in range(1, 9)]
    return MPSConfig(
        dt=DT,
        noise_model=pulser.NoiseModel(relaxation_rate=4.0, dephasing_rate=8.0),
        observables=[
            Occupation(evaluation_times=times),
            Energy(evaluation_times=times),
        ],
        autosave_dt=600,
        log_level=logging.ERROR,
    )


callers: list = []
original_save = MPSBackendImpl.save_simulation
original_jump = NoisyMPSBackendImpl.do_random_quantum_jump


def describe(impl: MPSBackendImpl) -> str:
    return (
        f"timestep {impl._timestep_index}, sweep index {impl._sweep_index}, "
        f"{impl._swipe_direction.name}, t={impl.current_time:.3f}, "
        f"jump search {'active' if impl.root_finder is not None else 'idle'}"
    )


def reference_run():
    """Uninterrupted run; records the RNG state at every possible autosave point."""
    rng_states, descriptions, jumps = [], [], []
    callers.clear()

    def save_hook(self):
        rng_states.append(random.getstate())
        caller = sys._getframe(1).f_code.co_name
        callers.append(caller)
        descriptions.append(describe(self) + f", called from {caller}()")
        self.last_save_time = time.time() + 999  # no autosave is due
        return original_save(self)

    def jump_hook(self):
        jumps.append(self.current_time)
        return original_jump(self)

    MPSBackendImpl.save_simulation = save_hook
    NoisyMPSBackendImpl.do_random_quantum_jump = jump_hook
    try:
        random.seed(SEED)
        results = MPSBackend(make_sequence(), config=make_config()).run()
    finally:
        MPSBackendImpl.save_simulation = original_save
        NoisyMPSBackendImpl.do_random_quantum_jump = original_jump
    return results, rng_states, descriptions, jumps


def interrupted_run(k: int):
    """Same run; an autosave is written at autosave point k, then the process dies."""
    count = 0
    saved = {}

    def save_hook(self):
        nonlocal count
        if count == k:
            self.last_save_time = 0  # an autosave is due now
            original_save(self)
            saved["file"] = self.autosave_file
            raise Killed()
        count += 1
        self.last_save_time = time.time() + 999
        return original_save(self)

    MPSBackendImpl.save_simulation = save_hook
    try:
        random.seed(SEED)
        try:
            MPSBackend(make_sequence(), config=make_config()).run()
        except Killed:
            pass
    finally:
        MPSBackendImpl.save_simulation = original_save
    return saved.get("file")


def compare(res, ref) -> list[str]:
    problems = []
    if tuple(res.atom_order) != tuple(ref.atom_order):
        problems.append(f"atom order {res.atom_order} != {ref.atom_order}")
    for tag in ("occupation", "energy"):
        t_res, t_ref = res.get_result_times(tag), ref.get_result_times(tag)
        if t_res != t_ref:
            problems.append(f"{tag}: times {t_res} != {t_ref}")
            continue
        for t in t_ref:
            a = torch.as_tensor(res.get_result(tag, t), dtype=torch.float64)
            b = torch.as_tensor(ref.get_result(tag, t), dtype=torch.float64)
            if not torch.allclose(a, b, atol=1e-8, rtol=1e-8):
                problems.append(
                    f"{tag} at t={t}: max |diff| = {(a - b).abs().max().item():.3e}"
                )
                break
    return problems


def main() -> int:
    _d = tempfile.mkdtemp(prefix="c26c_demo_")
    os.chdir(_d)
    import atexit, shutil
    atexit.register(lambda: (os.chdir("/"), shutil.rmtree(_d, ignore_errors=True)))
    torch.set_num_threads(1)

    ref, rng_states, descriptions, jumps = reference_run()
    print(
        f"reference run: {len(rng_states)} possible autosave points, "
        f"{len(jumps)} quantum jump(s) at t = {[round(t, 3) for t in jumps]}"
    )
    if not jumps:
        print("NOT-REPRODUCED: the reference trajectory has no quantum jump (scenario not meaningful on this tree)")
        return 0

    # determinism check: the comparison below relies on it
    ref2, rng_states2, _, _ = reference_run()
    assert len(rng_states2) == len(rng_states) and not compare(ref2, ref), (
        "the seeded run is not reproducible"
    )

    n = len(rng_states)
    if os.environ.get("C26_NOISY_ALL"):
        points = list(range(n))
    else:
        odd = [k for k in range(n) if callers[k] != "progress"]
        near = set()
        for k in range(1, n):          # a jump happened between two consecutive save points: test both sides
            if "jump search active" in descriptions[k] or "jump search active" in descriptions[k - 1]:
                near.update((k - 1, k))
        points = sorted(set(odd) | set(list(sorted(near))[:8]) | set(range(0, n, max(1, n // 6))))
    print(f"testing {len(points)} of {n} autosave points ({sum(callers[k] != 'progress' for k in range(n))} not called from progress())")
    violations = 0
    for k in points:
        save_file = interrupted_run(k)
        assert save_file is not None and save_file.is_file()
        random.setstate(rng_states[k])
        res = MPSBackend.resume(save_file)
        logging.getLogger("emulators").handlers.clear()
        problems = compare(res, ref)
        if save_file.is_file():
            problems.append("autosave file not removed")
        if problems:
            violations += 1
            print(f"VIOLATION resuming from autosave point #{k} ({descriptions[k]}):")
            for p in problems:
                print("    " + p)

    if violations:
        print(
            f"REPRODUCED: noisy emu-mps run (3 atoms, relaxation + dephasing, seeded): {violations} of {len(points)} tested "
            "autosave points give a resumed run that differs from the uninterrupted run"
        )
        return 1
    print(
        f"NOT-REPRODUCED: resuming from each of the {len(points)} tested autosave points of a noisy run "
        "reproduces the uninterrupted run and removes the autosave file"
    )
    return 0


if __name__ == "__main__":
    sys.exit(main())
