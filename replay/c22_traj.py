"""C22 native falsifier, trajectory part (adapted from the demonstration of seed C22-d, written by an independent
sub-agent): for every noise trajectory PulserData.get_sequences yields, the per-step drives equal an independent
(scipy) PCHIP interpolation of THAT trajectory's own pulser samples at the step midpoints -- also when the noise
moves the atoms under a finite laser waist, so that each trajectory has its own amplitude samples."""
import sys
import warnings

import numpy as np
import torch
import pulser
from pulser.backend import EmulationConfig, Occupation
from pulser.noise_model import NoiseModel
from scipy.interpolate import PchipInterpolator

from emu_base.pulser_adapter import PulserData

warnings.filterwarnings("ignore")
TOL = 1e-9


def build_sequence() -> pulser.Sequence:
    reg = pulser.Register({"q0": [-6.0, 0.0], "q1": [0.0, 0.0], "q2": [7.0, 0.0]})
    seq = pulser.Sequence(reg, pulser.MockDevice)
    seq.declare_channel("glob", "rydberg_global")
    seq.declare_channel("loc", "rydberg_local", initial_target="q2")
    seq.config_detuning_map(
        reg.define_detuning_map({"q0": 0.7, "q1": 0.3, "q2": 0.0}), "dmm_0"
    )
    seq.add(
        pulser.Pulse(
            pulser.BlackmanWaveform(60, 0.3),
            pulser.RampWaveform(60, -4.0, 6.0),
            0.3,
        ),
        "glob",
    )
    seq.add(pulser.Pulse.ConstantPulse(40, 2.0, -1.0, 0.0), "loc")
    seq.add_dmm_detuning(pulser.RampWaveform(40, -1.0, -9.0), "dmm_0")
    return seq


def reference(samples, qubit_ids, target_times):
    """Independent reference (scipy PCHIP) from one trajectory's Pulser samples."""
    d = samples.to_nested_dict(all_local=True, samples_type="tensor")["Local"][
        "ground-rydberg"
    ]
    t = np.asarray(target_times, dtype=float)
    t_mid = 0.5 * (t[:-1] + t[1:])
    n = int(target_times[-1])
    grid = np.arange(n, dtype=float)
    out = {}
    for name in ("amp", "det", "phase"):
        cols = []
        for q in qubit_ids:
            y = np.asarray(torch.as_tensor(d[q][name]).real, dtype=float)
            v = PchipInterpolator(grid, y, extrapolate=True)(t_mid)
            if name == "amp":
                v = np.where((t_mid > grid[-1]) & (v < 0), 0.0, v)
            cols.append(v)
        out[name] = np.stack(cols, axis=1)
    return out


def check(label: str, noise: NoiseModel, n_traj: int, dt: float) -> bool:
    np.random.seed(1234)
    torch.manual_seed(1234)
    seq = build_sequence()
    config = EmulationConfig(
        observables=[Occupation(evaluation_times=[0.37, 1.0])],
        noise_model=noise,
        n_trajectories=n_traj,
        interaction_cutoff=0.0,
    )
    data = PulserData(sequence=seq, config=config, dt=dt)
    # noisy_samples is re-derived deterministically from the stored trajectories
    per_traj = [s for s in data.hamiltonian.noisy_samples for _ in range(s.reps)]
    seqs = list(data.get_sequences())
    assert len(seqs) == len(per_traj) == n_traj
    ok = True
    print(f"--- {label}: noise types {noise.noise_types}, {n_traj} trajectories, dt={dt}")
    for k, (sd, s) in enumerate(zip(seqs, per_traj)):
        ref = reference(s.samples, data.qubit_ids, data.target_times)
        errs = {}
        for name, got in (("amp", sd.omega), ("det", sd.delta), ("phase", sd.phi)):
            errs[name] = float(np.max(np.abs(got.real.numpy() - ref[name])))
        peak = ref["amp"].max(axis=0)
        bad = max(errs.values()) > TOL
        ok &= not bad
        print(
            f"  trajectory {k}: peak sampled amplitude per atom = "
            f"{np.array2string(peak, precision=6)}  max|drive - interp(samples)|: "
            f"amp {errs['amp']:.3e} det {errs['det']:.3e} phase {errs['phase']:.3e}"
            f"  {'VIOLATION' if bad else 'ok'}"
        )
        if float(sd.omega.real.min()) < 0:
            ok = False
            print("  negative amplitude!")
    return ok



def main() -> int:
    cases = [("no noise", NoiseModel(), 1, 1.0),
             ("amp_sigma + laser waist", NoiseModel(amp_sigma=0.1, laser_waist=30.0), 3, 0.7),
             ("register noise + finite laser waist",
              NoiseModel(laser_waist=30.0, temperature=50.0, trap_waist=1.0, trap_depth=150.0, disable_doppler=True,
                         detuning_map_spot_waist=2.0), 3, 1.0)]
    for label, noise, n_traj, dt in cases:
        try:
            ok = check(label, noise, n_traj, dt)
        except Exception as e:          # a noise option this pulser does not know: skip the case
            print(f"  {label}: not run ({type(e).__name__}: {str(e)[:120]})")
            continue
        if not ok:
            print(f"REPRODUCED: {label}: a trajectory's drives differ from the interpolation of its own samples (see above)")
            return 1
    print("NOT-REPRODUCED: every trajectory's drives are the midpoint interpolation of its own samples")
    return 0


if __name__ == "__main__":
    sys.exit(main())
