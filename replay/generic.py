"""Native replay of a counter-model against the real code (run with /venv/bin/python).

usage: generic.py <replay.json>
The replay file carries the contract (clauses are Python expressions), the class invariants
and the solver's counter-model.  This program rebuilds the inputs / initial object state from
the model, calls the real function of the working tree, and evaluates the same clauses on the
concrete values.  Prints REPRODUCED and exits 1 when a clause is false (or an exception that
the contract does not allow escapes) natively; NOT-REPRODUCED / exit 0 otherwise.
"""
import ast
import copy
import importlib
import json
import re
import sys
from fractions import Fraction


def parse_val(s):
    s = str(s).strip()
    if s in ("True", "False"):
        return s == "True"
    s = s.replace("?", "")
    m = re.fullmatch(r"\(?\s*(-?)\s*\(?/ (\d+(?:\.\d+)?) (\d+(?:\.\d+)?)\)?\s*\)?", s)
    try:
        if "/" in s and not s.startswith("["):
            return float(Fraction(s.replace(" ", "")))
        return float(s) if ("." in s or "e" in s.lower()) else int(s)
    except Exception:
        pass
    if s.startswith('"') and s.endswith('"'):
        return s[1:-1]
    return None


def model_lookup(model, name):
    """model keys look like  self.a!3  /  tolerance!15"""
    for k, v in model.items():
        if re.sub(r"!\d+$", "", k) == name:
            return parse_val(v)
    return None


class Old:
    pass


def eval_clause(src, env, old_env, invs):
    tree = ast.parse(src.strip(), mode="eval")

    class R(ast.NodeTransformer):
        def visit_Call(self, node):
            self.generic_visit(node)
            if isinstance(node.func, ast.Name) and node.func.id == "old":
                return ast.Call(ast.Name("__old__", ast.Load()),
                                [ast.Constant(ast.unparse(node.args[0]))], [])
            return node
    tree = ast.fix_missing_locations(R().visit(tree))

    def __old__(s):
        return eval(compile(ast.parse(s, mode="eval"), "<old>", "eval"), dict(old_env))

    def implies(a, b):
        return (not a) or b

    def inv(o):
        return all(eval(c, {"self": o, "abs": abs, "min": min, "max": max}) for c in
                   invs.get(type(o).__name__, []))

    def forall(f, lo, hi):
        return all(f(i) for i in range(int(lo), int(hi)))
    g = dict(env)
    g.update(__old__=__old__, implies=implies, inv=inv, forall=forall)
    return eval(compile(tree, "<clause>", "eval"), g)


def main():
    rec = json.load(open(sys.argv[1]))
    c = rec.get("contract")
    model = rec.get("counter_model") or {}
    if not c:
        print("NOT-REPRODUCED: replay file carries no contract")
        return 0
    modname, qual = c["target"].split(":")
    mod = importlib.import_module(modname)
    parts = qual.split(".")
    env = {}
    obj = None
    if len(parts) == 2:
        cls = getattr(mod, parts[0])
        obj = cls.__new__(cls)
        for f, ty in c.get("self_fields", {}).items():
            v = model_lookup(model, f"self.{f}")
            if ty.endswith("?"):
                isnone = model_lookup(model, f"self.{f}.is_none")
                if isnone:
                    v = None
                elif v is None:
                    v = 0.0
            elif v is None:
                v = {"real": 0.0, "int": 0, "bool": False, "str": ""}.get(ty, None)
            if ty == "real" and v is not None:
                v = float(v)
            setattr(obj, f, v)
        fn = getattr(cls, parts[1])
        env["self"] = obj
    else:
        fn = getattr(mod, parts[0])
    args = {}
    for p, ty in c["params"].items():
        if p == "self":
            continue
        if not isinstance(ty, str) or ty.split("?")[0] not in ("real", "int", "bool", "str", "nat", "posreal"):
            print(f"NOT-REPRODUCED: parameter {p} of type {ty} cannot be rebuilt generically")
            return 0
        v = model_lookup(model, p)
        if ty.endswith("?") and model_lookup(model, p + ".is_none"):
            v = None
        elif v is None:
            v = {"real": 0.0, "int": 0, "bool": False, "str": "", "nat": 0, "posreal": 1.0}[ty.rstrip("?")]
        if ty.startswith(("real", "posreal")) and v is not None:
            v = float(v)
        args[p] = v
    env.update(args)
    env.update(abs=abs, min=min, max=max, len=len)
    invs = c.get("class_invariants", {})
    print("inputs:", {k: v for k, v in args.items()}, "self:", getattr(obj, "__dict__", None))
    try:
        for r in c["requires"]:
            if not eval_clause(r, env, env, invs):
                print(f"NOT-REPRODUCED: precondition `{r}` is false on the concrete model (float rounding)")
                return 0
    except Exception as e:
        print(f"NOT-REPRODUCED: precondition not evaluable natively: {e!r}")
        return 0
    old_env = copy.deepcopy(env)
    exc = None
    result = None
    try:
        if obj is not None:
            result = fn(obj, **args)
        else:
            result = fn(**args)
    except Exception as e:          # noqa
        exc = e
    if exc is not None:
        name = type(exc).__name__
        allowed = c.get("raises", {})
        if name in allowed:
            cond = allowed[name]
            ok = True if cond is None else eval_clause(cond, old_env, old_env, invs)
            if ok:
                print(f"NOT-REPRODUCED: {name} raised and allowed by the contract")
                return 0
        print(f"REPRODUCED: real code raised {name}: {exc} (not allowed by the contract)")
        return 1
    env["result"] = result
    bad = []
    for e in c["ensures"]:
        try:
            if not eval_clause(e, env, old_env, invs):
                bad.append(e)
        except Exception as ex:
            print(f"  clause `{e}` not evaluable natively: {ex!r}")
    if bad:
        print("result:", result, "self after:", getattr(obj, "__dict__", None))
        for e in bad:
            print(f"REPRODUCED: postcondition false on the real code: {e}")
        return 1
    print("NOT-REPRODUCED: all clauses hold natively for this model")
    return 0


if __name__ == "__main__":
    sys.exit(main())
