"""C03 native replay: results must list atoms in register order and must not depend on the
qubit-order optimisation -- for a normal run and for a run resumed from an autosave."""
import json, os, sys
sys.path.insert(0, os.path.dirname(os.path.abspath(__file__)))
import torch
import perm_native as N


def main():
    N.setup()
    N.in_tmp_dir()
    focus = ""
    try:
        with open(sys.argv[1]) as f:
            focus = json.load(f).get("obligation", "")
    except Exception:
        pass
    from emu_mps import MPSBackend
    impl, sd, cfg = N.make_impl(True)
    perm = impl.qubit_permutation.tolist()
    if perm == [0, 1, 2, 3]:
        print("NOT-REPRODUCED: the optimiser kept the register order (scenario needs a reordering)")
        return 0
    order = impl.results.atom_order
    if list(order) != [sd.qubit_ids[p] for p in perm]:
        print(f"REPRODUCED: results.atom_order {order} is not qubit_ids permuted by {perm}")
        return 1
    findings = []
    # (a) resumed run
    impl, sd, cfg = N.make_impl(True, autosave_dt=11)
    impl.init()
    for _ in range(5):
        impl.progress()
    impl.last_save_time = -1e18
    impl.save_simulation()
    resumed = MPSBackend.resume(impl.autosave_file)
    _, full_on = N.run(True)
    if tuple(resumed.atom_order) != tuple(sd.qubit_ids):
        findings.append(("resume", f"MPSBackend.resume returned atom_order {tuple(resumed.atom_order)} "
                         f"(site order, perm {perm}); an uninterrupted run reports {tuple(full_on.atom_order)}; "
                         f"occupation {[round(float(x), 5) for x in resumed.occupation[-1]]} vs "
                         f"{[round(float(x), 5) for x in full_on.occupation[-1]]}"))
    # (b) optimisation on/off must agree
    _, full_off = N.run(False)
    a, b = torch.as_tensor(full_on.occupation[-1]), torch.as_tensor(full_off.occupation[-1])
    if tuple(full_on.atom_order) != tuple(sd.qubit_ids):
        findings.append(("order", f"run() reports atom_order {tuple(full_on.atom_order)}"))
    if not torch.allclose(a, b, atol=1e-6):
        findings.append(("drives", f"per-atom drives [1,2,3,4]: occupations with optimize_qubit_ordering=True "
                         f"{[round(float(x), 5) for x in a]} differ from False {[round(float(x), 5) for x in b]} "
                         f"(perm {perm}: the drives are not permuted with the sites)"))
    if not findings:
        print(f"NOT-REPRODUCED: perm {perm}: register order reported by run() and resume(); on/off agree")
        return 0
    # report the finding that matches the failed obligation first
    want = "resume" if "resume" in focus else ("drives" if "drives" in focus else "")
    findings.sort(key=lambda f: f[0] != want)
    print("REPRODUCED: " + findings[0][1])
    for _, txt in findings[1:]:
        print("  also: " + txt)
    return 1


if __name__ == "__main__":
    sys.exit(main())
