"""C03 native replay: results must list atoms in register order and must not depend on the
qubit-order optimisation -- clause-level checks of __init__ / permute_results on concrete data,
then a normal run and a run resumed from an autosave."""
import json, os, sys
sys.path.insert(0, os.path.dirname(os.path.abspath(__file__)))
import torch
import perm_native as N
import perm_units as U


def main():
    N.setup()
    N.in_tmp_dir()
    from emu_mps import MPSBackend
    findings = []
    for unit in (U.permute_results_unit, U.init_unit, U.tag_suffix_unit, U.tag_suffix_run):
        m = unit()
        if m:
            findings.append(m)
    impl, sd, cfg = N.make_impl(True)
    perm = impl.qubit_permutation.tolist()
    if perm == [0, 1, 2, 3] and not findings:
        print("NOT-REPRODUCED: the optimiser kept the register order (scenario needs a reordering)")
        return 0
    # (a) resumed run
    impl, sd, cfg = N.make_impl(True, autosave_dt=11)
    impl.init()
    for _ in range(5):
        impl.progress()
    impl.last_save_time = -1e18
    impl.save_simulation()
    resumed = MPSBackend.resume(impl.autosave_file)
    _, full_on = N.run(True)
    if tuple(resumed.atom_order) != tuple(sd.qubit_ids):
        findings.append(f"MPSBackend.resume returned atom_order {tuple(resumed.atom_order)} "
                        f"(site order, perm {perm}); an uninterrupted run reports {tuple(full_on.atom_order)}; "
                        f"occupation {[round(float(x), 5) for x in resumed.occupation[-1]]} vs "
                        f"{[round(float(x), 5) for x in full_on.occupation[-1]]}")
    # (b) optimisation on/off must agree
    _, full_off = N.run(False)
    a, b = torch.as_tensor(full_on.occupation[-1]), torch.as_tensor(full_off.occupation[-1])
    if tuple(full_on.atom_order) != tuple(sd.qubit_ids):
        findings.append(f"run() reports atom_order {tuple(full_on.atom_order)}, register order is {tuple(sd.qubit_ids)}")
    if not torch.allclose(a, b, atol=1e-6):
        findings.append(f"per-atom drives [1,2,3,4]: occupations with optimize_qubit_ordering=True "
                        f"{[round(float(x), 5) for x in a]} differ from False {[round(float(x), 5) for x in b]} "
                        f"(perm {perm})")
    # (c) observables that refer to the atoms through a user-supplied state: the qubit-order optimisation must not change
    # them either (it is switched off for them, or their reference is brought to the internal order)
    try:
        from emu_mps import MPS
        from pulser.backend import Fidelity, Occupation
        ref_state = MPS.from_state_amplitudes(eigenstates=("r", "g"), amplitudes={"rggg": 0.8, "ggrg": 0.6j})
        vals = {}
        for opt in (True, False):
            _, sd_f, cfg_f = N.make_impl(opt, observables=[Fidelity(state=ref_state, evaluation_times=[1.0]),
                                                            Occupation(evaluation_times=[1.0])])
            res = MPSBackend._run_from_sequence_data(sd_f, cfg_f)
            vals[opt] = (float(torch.as_tensor(res.fidelity[-1]).real), torch.as_tensor(res.occupation[-1]))
        if abs(vals[True][0] - vals[False][0]) > 1e-6 or not torch.allclose(vals[True][1], vals[False][1], atol=1e-6):
            findings.append(f"Fidelity against 0.8|rggg> + 0.6i|ggrg>: optimize_qubit_ordering=True gives {vals[True][0]:.6f}, "
                            f"False gives {vals[False][0]:.6f} (occupations {[round(float(x), 5) for x in vals[True][1]]} vs "
                            f"{[round(float(x), 5) for x in vals[False][1]]})")
    except (ImportError, AttributeError, TypeError) as e:
        print(f"  note: Fidelity scenario skipped ({type(e).__name__}: {str(e)[:120]})")
    if not findings:
        print(f"NOT-REPRODUCED: perm {perm}: register order reported by run() and resume(); permute_results moves every "
              "container home; on/off agree")
        return 0
    print("REPRODUCED: " + findings[0])
    for txt in findings[1:]:
        print("  also: " + txt)
    return 1


if __name__ == "__main__":
    ROOT = os.path.abspath(sys.argv[2] if len(sys.argv) > 2 else os.getcwd())
    sys.exit(N.cached("c03", main, ROOT))
