"""Native side check of the bounded symbolic properties C05 / C06 / C12 (bounded, sampled, real torch): the SAME harness cases
(symtorch/harness/symharness/cNN.py: same construction of the inputs, same independent dense specification) at sizes
BEYOND the bound of the symbolic run, executed with the numeric backend on seeded random values of every symbol.

  C05: Hamiltonian MPO vs dense Hamiltonian at N = 8, 9, 10 (dim 2) and N = 6, 7 (dim 3), random interaction patterns,
       Rydberg and XY
  C12: emu-sv state constructors from amplitudes at N = 5 .. 8, state algebra at N = 4 .. 6, dense operator constructors
       from the abstract representation at N = 4, 5, sparse operator constructors and sparse algebra at N = 5 .. 7
  C06: emu-sv Hamiltonian action at N = 5 .. 9 (random zero/non-zero phase patterns, all pairs / chain / random subset
       of interactions), Lindbladian action at N = 3, 4 with 0-2 jump operators

usage: engineb_beyond.py <replay.json> <repo_root>   (the record names the property)
exit 1 + 'REPRODUCED' when the real code disagrees with the specification at one of the sampled inputs, 0 otherwise.
"""
import importlib
import json
import os
import random
import sys
import warnings

warnings.filterwarnings("ignore")


class RandEnv(dict):
    """value of a symbol on demand: seeded by its name, never zero"""

    def __init__(self, seed):
        super().__init__()
        self.seed = seed

    def __missing__(self, name):
        r = random.Random(f"{self.seed}:{name}")
        v = r.uniform(0.3, 2.5) * r.choice([-1.0, 1.0])
        self[name] = v
        return v


class WideEnv(RandEnv):
    """values spread over eight orders of magnitude (van der Waals tails, weak drives next to strong ones)"""

    def __missing__(self, name):
        r = random.Random(f"{self.seed}:{name}")
        v = 10.0 ** r.uniform(-7.0, 1.0) * r.choice([-1.0, 1.0])
        self[name] = v
        return v


def plan(prop, rnd):
    out = []
    if prop == "C05":
        from symharness import c05
        for (N, dim), count in (((8, 2), 4), ((9, 2), 3), ((10, 2), 2), ((6, 3), 3), ((7, 3), 2)):
            pats = [rnd.getrandbits(c05.n_pairs(N)) for _ in range(count)] + [2 ** c05.n_pairs(N) - 1]
            for htype in ("Rydberg", "XY"):
                for bits in pats:
                    out.append(dict(kind="mpo", N=N, type=htype, dim=dim, pattern=bits, sampled=True))
        return c05, out
    if prop == "C06":
        from symharness import c06
        for N in (5, 6, 7, 8, 9):
            pairs = c06._all_pairs(N)
            chain = [[i, i + 1] for i in range(N - 1)]
            for k in range(4 if N <= 7 else 2):
                phi = [rnd.randint(0, 1) for _ in range(N)] if k else [1] * N
                U = [pairs, chain, [p for p in pairs if rnd.random() < 0.5], []][k % 4]
                out.append(dict(kind="sv_ham", N=N, phi=phi, U=U, param_dtype="complex128"))
            out.append(dict(kind="sv_ham", N=N, phi=[0] * N, U=pairs, omega_zero=[rnd.randrange(N)],
                            delta_zero=[rnd.randrange(N)], param_dtype="complex128"))
        for N in (3, 4):
            for jumps in ([], [c06.FULL], [c06.JUMP_PATTERNS[1], c06.JUMP_PATTERNS[2]]):
                for phi in ([1] * N, [rnd.randint(0, 1) for _ in range(N)], [0] * N):
                    out.append(dict(kind="lindblad", N=N, phi=phi, U=c06._all_pairs(N), jumps=jumps, gpu=False,
                                    rho="hermitian", param_dtype="complex128"))
        return c06, out
    if prop == "C12":
        from symharness import c12
        for N in (5, 6, 7, 8):
            for k in range(4):
                s1 = "".join(rnd.choice("gr") for _ in range(N))
                s2 = "".join(rnd.choice("gr") for _ in range(N))
                if s1 == s2:
                    s2 = ("r" if s1[0] == "g" else "g") + s1[1:]
                basis, a, b = [(["r", "g"], 10, 11), (["g", "r"], 8, 9), (["r", "g"], 4, 5), (["g", "r"], 10, 11)][k]
                out.append(dict(kind="sv_amp", N=N, basis=basis, amps=[[s1, a], [s2, b]]))
            out.append(dict(kind="sv_amp", N=N, basis=["r", "g"], amps=[["".join(rnd.choice("gr") for _ in range(N)), 1]]))
        for N in (4, 5, 6):
            out.append(dict(kind="sv_alg", N=N))
        NS = c12.NAME_SETS
        for N in (4, 5):
            parts = c12._partitions_into_ops(N)
            for pi in rnd.sample(range(len(parts)), min(4, len(parts))):
                part = parts[pi]
                ni = rnd.randrange(len(NS))
                term1 = [(NS[ni], tg) if k == 0 else (NS[(ni + 1) % len(NS)], tg) for k, tg in enumerate(part)]
                term2 = [(NS[(ni + 2) % len(NS)], [N - 1])]
                out.append(dict(kind="dense_op", N=N, basis=["r", "g"], terms=[term1]))
                out.append(dict(kind="dense_op", N=N, basis=["g", "r"], terms=[term1, term2], target_sets=bool((pi + ni) % 2)))
        S = c12.SPARSE_NAME_SETS
        for N in (5, 6, 7):
            parts = c12._partitions_into_ops(N)
            for pi in rnd.sample(range(len(parts)), min(3, len(parts))):
                part = parts[pi]
                ni = rnd.randrange(len(S))
                term1 = [(S[ni], tg) if k == 0 else (S[(ni + 6) % len(S)], tg) for k, tg in enumerate(part)]
                term2 = [(S[(ni + 2) % len(S)], [N - 1])]
                term3 = [(S[(ni + 7) % len(S)], tg) for tg in part]
                out.append(dict(kind="sparse_op", N=N, basis=["r", "g"], terms=[term1], target_sets=bool(pi % 2)))
                out.append(dict(kind="sparse_op", N=N, basis=["g", "r"], terms=[term1, term2, term3]))
            # single-qubit factors on far-apart atoms (the other atoms carry the identity)
            out.append(dict(kind="sparse_op", N=N, basis=["r", "g"],
                            terms=[[(S[1 % len(S)], [0]), (S[3 % len(S)], [N - 1])], [(S[2 % len(S)], [N // 2])]]))
            for pattern in ("scattered", "edge rows"):
                out.append(dict(kind="sparse_alg", N=N, pattern=pattern))
        return c12, out
    raise SystemExit(f"no beyond-the-bound plan for {prop}")


def main():
    path, repo_root = sys.argv[1], os.path.realpath(sys.argv[2])
    sys.path.insert(0, repo_root)
    sys.path.insert(0, os.path.join(os.path.dirname(os.path.dirname(os.path.abspath(__file__))), "symtorch", "harness"))
    with open(path) as f:
        rec = json.load(f)
    prop = rec["property"]
    import torch
    torch.set_num_threads(1)
    from symharness.core import NumBackend, execute
    seed = int(os.environ.get("VERIF_SEED", rec.get("seed", 0)))
    mod, cases = plan(prop, random.Random(seed + 5))
    for p in mod.PACKAGES:
        m = importlib.import_module(p)
        f = os.path.realpath(m.__file__)
        if not f.startswith(repo_root + os.sep):
            print(f"replay error: {p} imported from {f}, not from {repo_root}")
            return 3
    n_entries = 0
    for i, case in enumerate(cases):
        # every third case of the Hamiltonian properties on values spread over eight orders of magnitude
        env = WideEnv(f"{seed}/{i}") if (prop in ("C05", "C06") and i % 3 == 2) else RandEnv(f"{seed}/{i}")
        r = execute(NumBackend(env), dict(case), mod.KINDS[case["kind"]])
        if r["status"] == "mismatch":
            m = r["mismatches"][0]
            print(f"case: {json.dumps(case)}" + (" [values spread over 1e-7 .. 10]" if isinstance(env, WideEnv) else ""))
            print(f"  {m.get('check')} index {m.get('index')}: real code {m.get('got')}  specification {m.get('want')}")
            print("REPRODUCED: the real code disagrees with the dense specification at a size beyond the symbolic bound")
            return 1
        if r["status"] == "raised":
            print(f"case: {json.dumps(case)}")
            print(r["exception"]["traceback"][-1000:])
            print(f"REPRODUCED: the real code raised {r['exception']['type']}: {r['exception']['message'][:200]}")
            return 1
        if r["status"] != "ok":
            print(f"harness problem in case {json.dumps(case)}: {r['status']} {r.get('op') or r.get('traceback', '')[-800:]}")
            return 3
        n_entries += r["entries"]
    print(f"NOT-REPRODUCED: {len(cases)} cases beyond the symbolic bound ({n_entries} entries) match the dense specification "
          f"on random values")
    return 0


if __name__ == "__main__":
    sys.exit(main())
