"""Native clause-level falsifiers for the permutation data flow (used by c02.py, c03.py, c25.py):
each function runs the REAL code on small concrete data and returns None or a failure text that
mirrors one contract clause (contracts/mps_dataflow*.py, mps_results.py)."""
import random
from collections import Counter

import torch

import perm_native as N


class FakeResults:
    """the four members of pulser Results that the permutation helpers use"""

    def __init__(self, atom_order, store):
        self.atom_order = tuple(atom_order)
        self._results = dict(store)

    def get_result_tags(self):
        return list(self._results.keys())

    def _find_uuid(self, tag):
        return tag


def permute_results_unit(seed=0):
    """site order -> register order: position perm[k] of every container shows what site k held"""
    from emu_mps.mps_backend_impl import MPSBackendImpl
    rnd = random.Random(seed)
    for trial in range(40):
        n = rnd.randint(2, 6)
        perm = list(range(n))
        rnd.shuffle(perm)
        ids = [f"q{a}" for a in range(n)]
        impl = object.__new__(MPSBackendImpl)
        impl.qubit_permutation = torch.tensor(perm)
        bits = "".join(rnd.choice("01") for _ in range(n))
        occ = torch.tensor([10.0 * (k + 1) for k in range(n)])
        corr = torch.tensor([[100.0 * i + j for j in range(n)] for i in range(n)])
        tags = rnd.choice([("bitstrings", "occupation", "correlation_matrix"), ("occupation",), ("bitstrings",), ()])
        store = {}
        if "bitstrings" in tags:
            store["bitstrings"] = [Counter({bits: 7})]
        if "occupation" in tags:
            store["occupation"] = [occ.clone()]
        if "correlation_matrix" in tags:
            store["correlation_matrix"] = [corr.clone()]
        res = FakeResults([ids[p] for p in perm], store)
        out = impl.permute_results(res, True)
        where = f"perm {perm} (site k holds atom perm[k]), containers {tags}"
        if tuple(out.atom_order) != tuple(ids):
            return f"permute_results: atom_order {tuple(out.atom_order)} is not the register order {tuple(ids)}; {where}"
        if "bitstrings" in tags:
            (s, c), = out._results["bitstrings"][0].items()
            if c != 7 or len(s) != n or any(s[perm[k]] != bits[k] for k in range(n)):
                return (f"permute_results: site-order bitstring {bits!r} became {s!r}; register position perm[k] must "
                        f"show site k's outcome; {where}")
        if "occupation" in tags:
            o = torch.as_tensor(out._results["occupation"][0])
            if any(o[perm[k]] != occ[k] for k in range(n)):
                return f"permute_results: site-order occupation {occ.tolist()} became {o.tolist()}; {where}"
        if "correlation_matrix" in tags:
            m = torch.as_tensor(out._results["correlation_matrix"][0])
            if any(m[perm[i], perm[j]] != corr[i, j] for i in range(n) for j in range(n)):
                return f"permute_results: site-order correlation matrix was not moved to [perm[i], perm[j]]; {where}"
        # permute=False leaves everything alone
        res2 = FakeResults([ids[p] for p in perm], {k: list(v) for k, v in store.items()})
        out2 = impl.permute_results(res2, False)
        if tuple(out2.atom_order) != tuple(ids[p] for p in perm):
            return f"permute_results(…, False) changed atom_order; {where}"
    return None


def tag_suffix_unit(seed=1):
    """results stored under f"{base}_{suffix}" (Observable(tag_suffix=...)) are per-atom containers of the
    same kind as `base` and must come home to register order too; other kinds stay untouched"""
    from emu_mps.mps_backend_impl import MPSBackendImpl
    rnd = random.Random(seed)
    for trial in range(20):
        n = rnd.randint(3, 6)
        perm = list(range(n))
        while perm == sorted(perm):
            rnd.shuffle(perm)
        ids = [f"q{a}" for a in range(n)]
        impl = object.__new__(MPSBackendImpl)
        impl.qubit_permutation = torch.tensor(perm)
        bits = "".join("1" if k == 0 else "0" for k in range(n))            # site 0 excited
        occ = torch.tensor([10.0 * (k + 1) for k in range(n)])
        corr = torch.tensor([[100.0 * i + j for j in range(n)] for i in range(n)])
        store = {"occupation": [occ.clone()], "occupation_x": [occ.clone()], "bitstrings_z": [Counter({bits: 7})],
                 "correlation_matrix_y": [corr.clone()], "energy_x": [torch.tensor(-1.5)], "energy": [torch.tensor(2.5)]}
        res = FakeResults([ids[p] for p in perm], store)
        out = impl.permute_results(res, True)
        where = f"perm {perm} (site k holds atom perm[k])"
        for tag in ("occupation", "occupation_x"):
            o = torch.as_tensor(out._results[tag][0])
            if any(o[perm[k]] != occ[k] for k in range(n)):
                return (f"permute_results: result tag {tag!r}: site-order occupation {occ.tolist()} became {o.tolist()}, "
                        f"expected register position perm[k] to show site k's value; {where}")
        (s, c), = out._results["bitstrings_z"][0].items()
        if c != 7 or any(s[perm[k]] != bits[k] for k in range(n)):
            return f"permute_results: result tag 'bitstrings_z': site-order bitstring {bits!r} became {s!r}; {where}"
        m = torch.as_tensor(out._results["correlation_matrix_y"][0])
        if any(m[perm[i], perm[j]] != corr[i, j] for i in range(n) for j in range(n)):
            return f"permute_results: result tag 'correlation_matrix_y' was not moved to [perm[i], perm[j]]; {where}"
        if float(out._results["energy_x"][0]) != -1.5 or float(out._results["energy"][0]) != 2.5:
            return f"permute_results: a result that is not per atom (energy / energy_x) was changed; {where}"
    return None


def tag_suffix_run():
    """end to end: Occupation() and Occupation(tag_suffix='x') observe the same thing in one run"""
    from emu_mps import MPSBackend
    from pulser.backend import CorrelationMatrix, Occupation
    obs = [Occupation(evaluation_times=[1.0]), Occupation(evaluation_times=[1.0], tag_suffix="x"),
           CorrelationMatrix(evaluation_times=[1.0], tag_suffix="y")]
    impl, sd, cfg = N.make_impl(True, observables=obs)
    perm = impl.qubit_permutation.tolist()
    if not cfg.optimize_qubit_ordering or perm == sorted(perm):
        return None
    res = MPSBackend._run_from_sequence_data(sd, cfg)
    a = torch.as_tensor(res.get_result("occupation", 1.0)).real
    b = torch.as_tensor(res.get_result("occupation_x", 1.0)).real
    d = torch.as_tensor(res.get_result("correlation_matrix_y", 1.0)).real.diagonal()
    r = lambda v: [round(float(x), 5) for x in v]
    if not torch.allclose(a, b, atol=1e-9):
        return (f"one run, perm {perm}: occupation {r(a)} but occupation_x {r(b)} (same observable with tag_suffix='x' "
                "is left in site order)")
    if not torch.allclose(a.to(d.dtype), d, atol=1e-6):
        return f"one run, perm {perm}: occupation {r(a)} but diagonal of correlation_matrix_y {r(d)}"
    return None


def init_unit():
    """__init__: atom_order == qubit_ids[perm]; identity without optimisation; drives follow the sites"""
    om, de, ph = N.local_drives()
    for optimize in (True, False):
        impl, sd, cfg = N.make_impl(optimize)
        perm = impl.qubit_permutation.tolist()
        if sorted(perm) != [0, 1, 2, 3]:
            return f"__init__: qubit_permutation {perm} is not a permutation of the 4 atoms"
        if not optimize and perm != [0, 1, 2, 3]:
            return f"__init__: optimize_qubit_ordering=False but qubit_permutation = {perm}"
        if list(impl.results.atom_order) != [sd.qubit_ids[p] for p in perm]:
            return f"__init__: results.atom_order {impl.results.atom_order} is not qubit_ids permuted by {perm}"
        for name, reg in (("omega", om), ("delta", de), ("phi", ph)):
            got = getattr(impl, name)
            want = reg[:, impl.qubit_permutation]
            if got.shape != want.shape or not torch.equal(got, want):
                return (f"__init__: qubit_permutation = {perm} (site k holds register atom perm[k]) but impl.{name}[0] = "
                        f"{got[0].real.tolist()}; the drive of site k must be that of atom perm[k]: {want[0].real.tolist()}")
    return None


def update_H_unit():
    """update_H / update_H_no_noise hand row `_timestep_index` of the stored drives, name by name"""
    import emu_mps.mps_backend_impl as M
    impl, sd, cfg = N.make_impl(True)
    impl.init()
    steps = impl.omega.shape[0]
    # make every (drive, step, site) value distinct
    for d, name in enumerate(("omega", "delta", "phi")):
        t = torch.arange(steps, dtype=torch.float64).view(-1, 1) * 10 + torch.arange(impl.omega.shape[1]) + 1000 * (d + 1)
        setattr(impl, name, t.to(torch.complex128))
    for fn in ("update_H", "update_H_no_noise"):
        for step in (0, steps - 1):
            calls = []
            orig = M.update_H

            def spy(**kw):
                calls.append(kw)
                return None
            M.update_H = spy
            try:
                impl._timestep_index = step
                getattr(impl, fn)()
            finally:
                M.update_H = orig
            if len(calls) != 1:
                return f"{fn}: hamiltonian.update_H called {len(calls)} times"
            for name in ("omega", "delta", "phi"):
                want = getattr(impl, name)[step, :]
                got = calls[0].get(name)
                if got is None or got.shape != want.shape or not torch.equal(got, want):
                    return (f"{fn} at step {step}: hamiltonian.update_H received {name} = "
                            f"{None if got is None else got.real.tolist()}, expected row {step} of impl.{name} = {want.real.tolist()}")
    return None


def interaction_matrix_unit():
    J = N.chain_matrix()
    impl, sd, cfg = N.make_impl(True)
    impl.well_prepared_qubits_filter = None
    for p in (impl.qubit_permutation, torch.tensor([1, 2, 3, 0])):      # the second is not an involution
        impl.qubit_permutation = p
        got = impl._get_interaction_matrix()
        if not torch.equal(got, J[p][:, p]):
            return f"_get_interaction_matrix: not J[perm[i], perm[j]] for perm {p.tolist()}: {got.tolist()}"
    return None


def initial_state_unit():
    """a given initial state is re-keyed: site k carries the character of register atom perm[k]"""
    from emu_mps import MPS
    import emu_mps.mps_backend_impl as M
    impl, sd, cfg = N.make_impl(True)
    # a permutation that is not its own inverse (the optimiser's [3, 1, 2, 0] is an involution)
    impl.qubit_permutation = torch.tensor([1, 2, 3, 0])
    perm = impl.qubit_permutation.tolist()
    impl.well_prepared_qubits_filter = None
    amps = {"rggg": 0.6, "ggrg": 0.8}
    st = MPS.from_state_amplitudes(eigenstates=("r", "g"), amplitudes=amps)
    seen = []
    orig = MPS.from_state_amplitudes.__func__

    def spy(cls, *, eigenstates, amplitudes):
        seen.append(dict(amplitudes))
        return orig(cls, eigenstates=eigenstates, amplitudes=amplitudes)
    had = "from_state_amplitudes" in M.MPS.__dict__
    saved = M.MPS.__dict__.get("from_state_amplitudes")
    M.MPS.from_state_amplitudes = classmethod(spy)
    try:
        impl.init_initial_state(st)
    finally:
        if had:
            M.MPS.from_state_amplitudes = saved
        else:
            del M.MPS.from_state_amplitudes
    if perm == [0, 1, 2, 3]:
        return None
    # (pulser's State machinery may call from_state_amplitudes itself as well: the call made by
    # init_initial_state is the last one)
    if not seen:
        return f"init_initial_state: state not rebuilt although perm = {perm}"
    want = {"".join(k[p] for p in perm): v for k, v in amps.items()}
    got = {k: complex(v).real for k, v in seen[-1].items()}
    if set(got) != set(want) or any(abs(got[k] - want[k]) > 1e-9 for k in want):
        return (f"init_initial_state: perm = {perm}; amplitudes {amps} were re-keyed to {got}, expected site k to "
                f"carry the character of atom perm[k]: {want}")
    return None


def dark_qubits_unit():
    """init_dark_qubits: per-site filter, count, reduced drives of the good atoms; reduced matrix"""
    om, de, ph = N.local_drives()
    J = N.chain_matrix()
    for bad in ([True, False, False, False], [False, False, True, False], [False, True, False, True]):
        impl, sd, cfg = N.make_impl(True, bad_atoms=bad)
        perm = impl.qubit_permutation.tolist()
        impl.init_dark_qubits()
        filt = impl.well_prepared_qubits_filter.tolist()
        want = [not bad[p] for p in perm]
        if filt != want:
            return (f"init_dark_qubits: bad atoms {bad}, perm = {perm}: the per-site filter is {filt}, expected "
                    f"well_prepared[perm[k]] = {want}")
        good = [p for p in perm if not bad[p]]
        if impl.qubit_count != len(good):
            return f"init_dark_qubits: qubit_count {impl.qubit_count} != number of well-prepared atoms {len(good)}"
        for name, reg in (("omega", om), ("delta", de), ("phi", ph)):
            got = getattr(impl, name)
            if got.shape[1] != len(good) or not torch.equal(got, reg[:, good]):
                return (f"init_dark_qubits: bad atoms {bad}, perm = {perm}: reduced {name}[0] = {got[0].real.tolist()}, "
                        f"expected the drives of the good atoms in site order {good}: {reg[0, good].real.tolist()}")
        m = impl._get_interaction_matrix()
        if not torch.equal(m, J[good][:, good]):
            return (f"_get_interaction_matrix: bad atoms {bad}, perm = {perm}: reduced matrix {m.tolist()} is not that "
                    f"of the good atoms {good}: {J[good][:, good].tolist()}")
    return None
