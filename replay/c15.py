"""C15 native replay / falsifier (run with /venv/bin/python, cwd = repo, PYTHONPATH = repo).

Random concrete inputs against the REAL functions; the random sources (`random.random`,
`torch.multinomial`) are wrapped so that their values are known and the same clauses as in
contracts/sampling.py can be evaluated:

  readout_with_error      one draw r; result flipped iff (c=='0' and r<p_false_pos) or (c=='1' and r<p_false_neg)
  apply_measurement_errors  total preserved, key lengths preserved, every bit = readout of the input bit
                            with the draws in call order
  index_to_bitstring      length n, character j is '1' iff bit n-1-j; AssertionError iff index >= 2**n
  StateVector / DensityMatrix / MPS .sample   total == num_shots; key length n; character j is '1' iff the
                            recorded outcome (bit n-1-j of the basis index / site-j outcome == 1);
                            MPS: dim 3 with p_false_pos > 0 raises NotImplementedError
"""
import json
import os
import random
import sys
from collections import Counter

import torch


def spec_flip(c, r, pfp, pfn):
    if c == "0" and r < pfp:
        return "1"
    if c == "1" and r < pfn:
        return "0"
    return c


class Draws:
    """replacement for random.random inside emu_base.utils: records what it returns"""

    def __init__(self, rnd):
        self.rnd, self.log = rnd, []

    def __call__(self):
        r = self.rnd.choice([0.0, 0.25, 0.5, 0.75, 0.999999, self.rnd.random()])
        self.log.append(r)
        return r


def check_readout(rnd, utils):
    real = utils.random.random
    try:
        for _ in range(2000):
            d = Draws(rnd)
            utils.random.random = d
            c = rnd.choice(["0", "1"])
            pfp, pfn = (rnd.choice([0.0, 0.25, 0.5, 1.0, rnd.random()]) for _ in range(2))
            out = utils.readout_with_error(c, p_false_pos=pfp, p_false_neg=pfn)
            if len(d.log) != 1:
                return f"readout_with_error drew {len(d.log)} random numbers for one bit"
            if out != spec_flip(c, d.log[0], pfp, pfn):
                return (f"readout_with_error({c!r}, p_false_pos={pfp}, p_false_neg={pfn}) with r={d.log[0]} "
                        f"returned {out!r}, expected {spec_flip(c, d.log[0], pfp, pfn)!r}")
        for _ in range(300):
            d = Draws(rnd)
            utils.random.random = d
            n = rnd.randint(0, 6)
            bag = Counter({"".join(rnd.choice("01") for _ in range(n)): rnd.randint(1, 5)
                           for _ in range(rnd.randint(0, 4))})
            pfp, pfn = (rnd.choice([0.0, 0.25, 0.5, 1.0, rnd.random()]) for _ in range(2))
            out = utils.apply_measurement_errors(bag, p_false_pos=pfp, p_false_neg=pfn)
            if sum(out.values()) != sum(bag.values()):
                return f"apply_measurement_errors changed the total count: {bag} -> {out}"
            if any(len(k) != n for k in out):
                return f"apply_measurement_errors changed a key length: {bag} -> {out}"
            it = iter(d.log)
            want = Counter()
            try:
                for key, cnt in bag.items():
                    for _ in range(cnt):
                        want["".join(spec_flip(c, next(it), pfp, pfn) for c in key)] += 1
            except StopIteration:
                return "apply_measurement_errors used fewer draws than one per bit"
            if want != out or next(it, None) is not None:
                return (f"apply_measurement_errors({dict(bag)}, p_false_pos={pfp}, p_false_neg={pfn}) with draws "
                        f"{d.log} returned {dict(out)}, expected {dict(want)}")
    finally:
        utils.random.random = real
    return None


def check_index_to_bitstring():
    from emu_sv.utils import index_to_bitstring
    for n in range(1, 9):           # n = 0 (no atom) is outside the property: format(0, "00b") == "0"
        for i in range(0, 2 ** n + 3):
            try:
                s = index_to_bitstring(n, i)
            except AssertionError:
                if i < 2 ** n:
                    return f"index_to_bitstring({n}, {i}) raised AssertionError"
                continue
            if i >= 2 ** n:
                return f"index_to_bitstring({n}, {i}) = {s!r} accepted an index >= 2**n"
            if len(s) != n or any((s[j] == "1") != bool((i >> (n - 1 - j)) & 1) or s[j] not in "01" for j in range(n)):
                return f"index_to_bitstring({n}, {i}) = {s!r}"
    return None


class Multinomial:
    def __init__(self):
        self.real = torch.multinomial
        self.log = []

    def __call__(self, *a, **k):
        out = self.real(*a, **k)
        self.log.append(out.clone())
        return out


def check_sv(rnd):
    from emu_sv import StateVector, DensityMatrix
    for _ in range(60):
        n = rnd.randint(1, 4)
        v = torch.randn(2 ** n, dtype=torch.complex128)
        v = v / v.norm()
        shots = rnd.choice([1, 7, 100])          # 0 shots: torch.multinomial raises (outside the property)
        pfp, pfn = rnd.choice([(0.0, 0.0), (0.0, 0.0), (0.3, 0.0), (0.0, 0.4), (0.2, 0.2)])
        for state in (StateVector(v, gpu=False), DensityMatrix.from_state_vector(StateVector(v, gpu=False))):
            m = Multinomial()
            torch.multinomial = m
            try:
                out = state.sample(num_shots=shots, p_false_pos=pfp, p_false_neg=pfn)
            finally:
                torch.multinomial = m.real
            name = type(state).__name__
            if sum(out.values()) != shots:
                return f"{name}.sample(num_shots={shots}) returned {sum(out.values())} counts"
            if any(len(k) != n or set(k) - {"0", "1"} for k in out):
                return f"{name}.sample: a key is not a bitstring of length {n}: {dict(out)}"
            if pfp == 0 and pfn == 0:
                want = Counter(format(int(o), f"0{n}b") if n else "" for o in m.log[0])
                if n and want != out:
                    return f"{name}.sample: keys do not encode the sampled basis indices (msb = qubit 0): {dict(out)} vs {dict(want)}"
    return None


def check_mps(rnd):
    from emu_mps import MPS
    for _ in range(40):
        n = rnd.randint(2, 4)
        dim = rnd.choice([2, 3])
        chi = rnd.randint(1, 3)
        factors = [torch.randn(1 if i == 0 else chi, dim, 1 if i == n - 1 else chi, dtype=torch.complex128)
                   for i in range(n)]
        state = MPS(factors, eigenstates=("r", "g") if dim == 2 else ("r", "g", "x"), num_gpus_to_use=0)
        shots = rnd.choice([0, 1, 31, 32, 33, 70])
        pfp, pfn = rnd.choice([(0.0, 0.0), (0.0, 0.0), (0.3, 0.0), (0.0, 0.4), (0.2, 0.2)])
        m = Multinomial()
        torch.multinomial = m
        try:
            out = state.sample(num_shots=shots, p_false_pos=pfp, p_false_neg=pfn)
        except NotImplementedError:
            if not (pfp > 0 and dim > 2):
                return f"MPS.sample raised NotImplementedError for dim={dim}, p_false_pos={pfp}"
            continue
        finally:
            torch.multinomial = m.real
        if pfp > 0 and dim > 2:
            return f"MPS.sample(dim=3, p_false_pos={pfp}) returned instead of raising NotImplementedError"
        if sum(out.values()) != shots:
            return f"MPS.sample(num_shots={shots}) returned {sum(out.values())} counts"
        if any(len(k) != n or set(k) - {"0", "1"} for k in out):
            return f"MPS.sample: a key is not a bitstring of length {n}: {dict(out)}"
        if pfp == 0 and pfn == 0:
            want = Counter()
            if len(m.log) % n:
                return f"MPS.sample drew {len(m.log)} multinomial batches for {n} sites"
            for b in range(0, len(m.log), n):
                cols = [t.reshape(-1) for t in m.log[b:b + n]]
                if any(int(c.max()) >= dim for c in cols if c.numel()):
                    return "MPS.sample: multinomial over more categories than levels"
                for s in range(cols[0].numel()):
                    want["".join("1" if int(cols[q][s]) == 1 else "0" for q in range(n))] += 1
            if want != out:
                return f"MPS.sample: key characters are not ('1' iff outcome 1 at that site): {dict(out)} vs {dict(want)}"
    return None


class MultinomialIO(Multinomial):
    """also records the probability tables handed to torch.multinomial"""

    def __init__(self):
        super().__init__()
        self.probs = []

    def __call__(self, probs, *a, **k):
        self.probs.append(probs.detach().clone())
        return super().__call__(probs, *a, **k)


def check_mps_sweep(rnd):
    """the conditional sweep of MPS.sample on random NON-canonical, unnormalised MPS: the table handed to
    torch.multinomial at site q for a shot whose earlier outcomes are x_0..x_{q-1} is the joint weight
    sum_rest |psi(x_0, .., x_{q-1}, k, rest)|^2 (dense definition), site after site from 0; the state and
    its declared centre are truthful on return"""
    from emu_mps import MPS
    torch.set_num_threads(1)
    for _ in range(60):
        n = rnd.randint(2, 5)
        dim = rnd.choice([2, 2, 3])
        chi = rnd.randint(1, 3)
        scale = rnd.choice([1.0, 0.3, 4.0])
        factors = [torch.randn(1 if i == 0 else chi, dim, 1 if i == n - 1 else chi, dtype=torch.complex128)
                   for i in range(n)]
        factors[0] = factors[0] * scale
        state = MPS([f.clone() for f in factors], eigenstates=("r", "g") if dim == 2 else ("r", "g", "x"),
                    num_gpus_to_use=0)
        if rnd.random() < 0.5:
            state.orthogonalize(rnd.randrange(n))        # a declared centre somewhere else
        acc = torch.ones(1, 1, dtype=torch.complex128)
        for f in state.factors:
            acc = torch.tensordot(acc, f, dims=1).reshape(-1, f.shape[2])
        psi = acc.reshape([dim] * n)
        w = (psi.abs() ** 2)
        shots = rnd.choice([1, 5, 40])
        m = MultinomialIO()
        torch.multinomial = m
        try:
            state.sample(num_shots=shots)
        finally:
            torch.multinomial = m.real
        label = f"N={n} dim={dim} chi={chi} |psi|^2={w.sum().item():.4g} shots={shots}"
        if len(m.probs) % n:
            return f"MPS.sample called torch.multinomial {len(m.probs)} times for {n} sites [{label}]"
        for b in range(0, len(m.probs), n):
            outs = [t.reshape(-1) for t in m.log[b:b + n]]
            for q in range(n):
                p = m.probs[b + q]
                for s in range(p.shape[0]):
                    sub = w
                    for qq in range(q):
                        sub = sub[int(outs[qq][s])]
                    want = sub.reshape(dim, -1).sum(1)
                    if (p[s].to(want.dtype) - want).abs().max().item() > 1e-9 * max(1.0, w.sum().item()):
                        return (f"MPS.sample: the weights handed to torch.multinomial at site {q} are "
                                f"{p[s].tolist()} but the joint weights of (earlier outcomes, k) are "
                                f"{want.tolist()} [{label}]")
        acc = torch.ones(1, 1, dtype=torch.complex128)
        for f in state.factors:
            acc = torch.tensordot(acc, f, dims=1).reshape(-1, f.shape[2])
        if (acc.reshape(-1) - psi.reshape(-1)).abs().max().item() > 1e-9 * max(1.0, w.sum().item() ** 0.5):
            return f"MPS.sample changed the represented state [{label}]"
        c = state.orthogonality_center
        if c != 0:
            return f"MPS.sample left the declared centre at {c} [{label}]"
        for i, f in enumerate(state.factors[1:], start=1):
            g = torch.tensordot(f.conj(), f, ([1, 2], [1, 2]))
            if (g - torch.eye(g.shape[0], dtype=g.dtype)).abs().max().item() > 1e-8:
                return f"MPS.sample: factor {i} is not right-orthonormal although the declared centre is 0 [{label}]"
    return None


def check_readout_dispatch():
    """readout errors are applied whenever a rate is non-zero -- deterministic corners (rates 0 and 1) on product
    states of qubits and of 3-level atoms, for MPS, StateVector and DensityMatrix"""
    from emu_mps import MPS
    from emu_sv import StateVector, DensityMatrix
    n, shots = 4, 60
    def product_mps(level, dim):
        f = []
        for _ in range(n):
            t = torch.zeros(1, dim, 1, dtype=torch.complex128)
            t[0, level, 0] = 1.0
            f.append(t)
        return MPS(f, eigenstates=("r", "g") if dim == 2 else ("r", "g", "x"), num_gpus_to_use=0)
    cases = []
    for dim in (2, 3):
        cases += [(f"MPS dim {dim} |r..r>, p_false_neg=1", lambda d=dim: product_mps(1, d).sample(num_shots=shots, p_false_neg=1.0), "0" * n),
                  (f"MPS dim {dim} |r..r>, no errors", lambda d=dim: product_mps(1, d).sample(num_shots=shots), "1" * n),
                  (f"MPS dim {dim} |g..g>, p_false_neg=1", lambda d=dim: product_mps(0, d).sample(num_shots=shots, p_false_neg=1.0), "0" * n)]
    cases += [("MPS dim 2 |g..g>, p_false_pos=1", lambda: product_mps(0, 2).sample(num_shots=shots, p_false_pos=1.0), "1" * n),
              ("MPS dim 2 |r..r>, both rates 1", lambda: product_mps(1, 2).sample(num_shots=shots, p_false_pos=1.0, p_false_neg=1.0), "0" * n)]
    psi_r = torch.zeros(2 ** n, dtype=torch.complex128)
    psi_r[-1] = 1.0
    cases += [("StateVector |r..r>, p_false_neg=1", lambda: StateVector(psi_r.clone(), gpu=False).sample(num_shots=shots, p_false_neg=1.0), "0" * n),
              ("StateVector |r..r>, both rates 1", lambda: StateVector(psi_r.clone(), gpu=False).sample(num_shots=shots, p_false_pos=1.0, p_false_neg=1.0), "0" * n),
              ("DensityMatrix |r..r>, p_false_neg=1",
               lambda: DensityMatrix(torch.outer(psi_r, psi_r.conj()), gpu=False).sample(num_shots=shots, p_false_neg=1.0), "0" * n)]
    for label, run, want in cases:
        got = dict(run())
        if got != {want: shots}:
            return f"{label}, {shots} shots: got {got}, expected {{'{want}': {shots}}}"
    return None


def main():
    rec = json.load(open(sys.argv[1])) if len(sys.argv) > 1 and os.path.exists(sys.argv[1]) else {}
    seed = int(os.environ.get("VERIF_SEED", "0"))
    rnd = random.Random(seed)
    torch.manual_seed(seed)
    import importlib
    importlib.import_module("emu_base.utils")
    utils = sys.modules["emu_base.utils"]
    try:
        for name, chk in (("readout", lambda: check_readout(rnd, utils)), ("index", check_index_to_bitstring),
                          ("sv", lambda: check_sv(rnd)), ("mps", lambda: check_mps(rnd)),
                          ("mps-sweep", lambda: check_mps_sweep(rnd)), ("readout-dispatch", check_readout_dispatch)):
            bad = chk()
            if bad:
                print(f"REPRODUCED: {bad}")
                return 1
    except Exception as e:
        import traceback
        traceback.print_exc()
        print(f"REPRODUCED: unexpected {type(e).__name__}: {e}")
        return 1
    print("NOT-REPRODUCED: random inputs satisfy the counting / encoding / per-bit readout clauses")
    return 0


if __name__ == "__main__":
    sys.exit(main())
