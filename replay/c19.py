"""C19 native replay: (1) the counter-model on the method under contract (generic replay),
(2) an end-to-end search for a function on which find_root_brents breaks the property
(exception, query outside the interval, or a result not within tolerance of a sign change)."""
import random
import subprocess
import sys
import os

HERE = os.path.dirname(os.path.abspath(__file__))


def e2e(seed=0, trials=3000):
    from emu_base.math.brents_root_finding import find_root_brents
    rnd = random.Random(seed)
    for t in range(trials):
        lo = rnd.uniform(-5, 5)
        hi = lo + rnd.uniform(0.5, 30)
        # continuous piecewise-linear function with a zero plateau [p, q]
        p = rnd.uniform(lo, hi)
        q = rnd.uniform(p, hi)
        sl, sr = rnd.uniform(0.1, 3), rnd.uniform(0.1, 3)
        sign = rnd.choice([-1, 1])
        kind = rnd.choice(["plateau", "linear", "cubic", "wiggle", "zigzag"])
        wk, wa = rnd.uniform(0.5, 6.0), rnd.uniform(0.2, 3.0)
        zz = sorted(rnd.uniform(lo, hi) for _ in range(rnd.randint(2, 6)))
        zv = [rnd.uniform(-2, 2) for _ in zz]

        def f(x, kind=kind):
            if kind == "plateau":
                if x < p:
                    return sign * sl * (x - p)
                if x > q:
                    return sign * sr * (x - q)
                return 0.0
            if kind == "linear":
                return sign * sl * (x - p)
            if kind == "wiggle":        # non-monotone: several sign changes are possible
                import math
                return sign * (0.3 * (x - p) + wa * math.sin(wk * (x - p)))
            if kind == "zigzag":        # continuous piecewise linear through random points
                pts = [(lo, -sign * 1.0)] + list(zip(zz, zv)) + [(hi, sign * 1.0)]
                for (x0, y0), (x1, y1) in zip(pts, pts[1:]):
                    if x0 <= x <= x1:
                        return y0 if x1 == x0 else y0 + (y1 - y0) * (x - x0) / (x1 - x0)
                return pts[-1][1]
            return sign * (x - p) ** 3
        if f(lo) * f(hi) >= 0:
            continue
        queries = []

        def g(x):
            queries.append(x)
            return f(x)
        tol = rnd.choice([1e-6, 1e-3, 1.0])
        try:
            r = find_root_brents(g, start=lo, end=hi, tolerance=tol, epsilon=rnd.choice([1e-6, 1.0]))
        except Exception as e:
            print(f"REPRODUCED: find_root_brents raised {type(e).__name__}: {e} on {kind} function "
                  f"lo={lo!r} hi={hi!r} plateau=[{p!r},{q!r}] slopes=({sl!r},{sr!r}) sign={sign} tol={tol}")
            return 1
        if any(not (lo <= x <= hi) for x in queries):
            print(f"REPRODUCED: query outside [{lo},{hi}]: {[x for x in queries if not lo <= x <= hi][:3]}")
            return 1
        # within tol of a sign change: f changes sign (or is zero) somewhere in [r - tol, r + tol]
        a, b = max(lo, r - tol), min(hi, r + tol)
        # a sign change (or zero) of f somewhere in [r - tol, r + tol]: dense sampling, because f
        # need not be monotone there
        vals = [f(a + (b - a) * k / 4000.0) for k in range(4001)]
        crossing = any(v == 0 for v in vals) or any(u * v < 0 for u, v in zip(vals, vals[1:]))
        if not crossing:
            print(f"REPRODUCED: result {r!r} not within {tol} of a sign change (f(r-tol)={f(a)}, f(r+tol)={f(b)})")
            return 1
    print(f"NOT-REPRODUCED end-to-end: {trials} random functions (linear, cubic, zero-plateau) all fine")
    return 0


def fp_case(path):
    """replay of a bounded-float obligation: the recorded case on the real module"""
    import json
    sys.path.insert(0, "/verif")
    from contracts import brents_fp as B
    rec = json.load(open(path))
    case = rec.get("counter_model") or {}
    import emu_base.math.brents_root_finding as M
    ns = {"BrentsRootFinder": M.BrentsRootFinder, "find_root_brents": M.find_root_brents}
    fn = dict(B.shapes())[case["shape"]]
    f = lambda x: case["sign"] * case["scale"] * fn(x)
    res = B.run_one(ns, f, case["tolerance"], case["epsilon"], bool(case.get("one_at_a_time")))
    bad = {k: v[1] for k, v in res.items() if not v[0]}
    if bad:
        print(f"REPRODUCED: {case['shape']} function scaled by {case['sign'] * case['scale']:g} on [{B.LO}, {B.HI}], "
              f"tolerance {case['tolerance']}, epsilon {case['epsilon']}, "
              f"{'one ordinate at a time' if case.get('one_at_a_time') else 'find_root_brents'}: {bad}")
        return 1
    print("NOT-REPRODUCED: the recorded floating-point case behaves on the real module")
    return 0


if __name__ == "__main__":
    if len(sys.argv) > 1 and os.path.exists(sys.argv[1]) and "/fp/" in open(sys.argv[1]).read(4000):
        sys.exit(fp_case(sys.argv[1]))
    p = subprocess.run([sys.executable, os.path.join(HERE, "generic.py")] + sys.argv[1:],
                       capture_output=True, text=True)
    print(p.stdout, end="")
    rc2 = e2e(int(os.environ.get("VERIF_SEED", "0")))
    sys.exit(1 if (p.returncode == 1 or rc2 == 1) else 0)
