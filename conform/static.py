"""Static part: find every call site from the repo packages into pulser (from the AST),
resolve the callee in the INSTALLED pulser (importlib + inspect), and check that the
arguments written at the call site bind to the callee's signature.

Kinds of call site recognised
  import   `from pulser.x import A`                      -> A must exist in pulser.x
  super    `super().m(...)` in a class whose MRO reaches a pulser class defining m
  direct   `A(...)`, `A.m(...)`, `pulser.x.A(...)` with A imported from pulser
  inherit  `C(...)`, `C.m(...)`, `self.m(...)`, `cls.m(...)` where C is a repo class and the
           member is inherited from a pulser class (first definer in the static MRO)
  method   `v.m(...)`, `v.a.b.m(...)` where v is a parameter / annotated name / annotated
           field whose annotation is a pulser class (attribute types chased through pulser's
           own annotations); sites whose receiver type cannot be inferred are NOT checked
           statically and are only listed (`unresolved_receivers`)
"""
from __future__ import annotations

import ast
import functools
import importlib
import inspect
import os
import types
import typing
from dataclasses import dataclass, field

from . import PACKAGES

DEP = "pulser"


def _is_dep_module_name(name: str | None) -> bool:
    return bool(name) and (name == DEP or name.startswith(DEP + "."))


def _qual(obj) -> str:
    mod = getattr(obj, "__module__", None)
    qn = getattr(obj, "__qualname__", None) or getattr(obj, "__name__", None)
    if isinstance(obj, types.ModuleType):
        return obj.__name__
    if mod and qn:
        return f"{mod}.{qn}"
    return repr(obj)


# ----------------------------------------------------------------------------- model

@dataclass
class Py:                 # a live object of the installed dependency
    obj: object
    name: str             # dotted path it was reached by

    def __hash__(self):
        return id(self.obj)

    def __eq__(self, o):
        return isinstance(o, Py) and o.obj is self.obj


@dataclass(frozen=True)
class RepoClass:
    module: str
    name: str             # qualified name inside the module


@dataclass
class Missing:            # a name that does not exist in the installed dependency
    name: str
    error: str


@dataclass
class ClassInfo:
    key: RepoClass
    node: ast.ClassDef
    mod: "ModuleInfo"
    methods: set = field(default_factory=set)
    annotations: dict = field(default_factory=dict)
    inferred: dict | None = None       # self.<attr> types inferred from `self.attr = <typed value>`


@dataclass
class ModuleInfo:
    relfile: str
    modname: str
    is_pkg: bool
    tree: ast.Module
    src: str
    imports: dict = field(default_factory=dict)     # local name -> ("pymod", dotted) | ("pyattr", module, attr) | ("repo", module, attr)
    classes: dict = field(default_factory=dict)     # qualname -> ClassInfo


@dataclass
class Site:
    obligation: str
    kind: str
    file: str
    line: int
    scope: str
    expr: str
    callee: str | None
    signature: str | None
    args: dict
    status: str           # ok | failed | undecided
    detail: str = ""

    def to_json(self):
        return dict(self.__dict__)


# ----------------------------------------------------------------------------- loading

def load_modules(repo_root: str) -> dict[str, ModuleInfo]:
    mods: dict[str, ModuleInfo] = {}
    for pkg in PACKAGES:
        base = os.path.join(repo_root, pkg)
        for dp, dns, fns in os.walk(base):
            dns[:] = sorted(d for d in dns if d != "__pycache__")
            for fn in sorted(fns):
                if not fn.endswith(".py"):
                    continue
                path = os.path.join(dp, fn)
                rel = os.path.relpath(path, repo_root)
                parts = rel[:-3].split(os.sep)
                is_pkg = parts[-1] == "__init__"
                if is_pkg:
                    parts = parts[:-1]
                with open(path, encoding="utf-8") as f:
                    src = f.read()
                mi = ModuleInfo(rel, ".".join(parts), is_pkg, ast.parse(src, filename=path), src)
                mods[mi.modname] = mi
    for mi in mods.values():
        _collect_imports(mi)
        _collect_classes(mi)
    return mods


def _abs_module(mi: ModuleInfo, node: ast.ImportFrom) -> str:
    if not node.level:
        return node.module or ""
    pkg = mi.modname.split(".") if mi.is_pkg else mi.modname.split(".")[:-1]
    if node.level > 1:
        pkg = pkg[: len(pkg) - (node.level - 1)]
    return ".".join(pkg + ([node.module] if node.module else []))


def _collect_imports(mi: ModuleInfo) -> None:
    for node in ast.walk(mi.tree):
        if isinstance(node, ast.Import):
            for a in node.names:
                top = a.name.split(".")[0]
                if _is_dep_module_name(a.name):
                    if a.asname:
                        mi.imports[a.asname] = ("pymod", a.name, node.lineno)
                    else:
                        mi.imports[top] = ("pymod", top, node.lineno)
                        mi.imports.setdefault("__plain_imports__", []).append((a.name, node.lineno))
                elif top in PACKAGES:
                    mi.imports[a.asname or top] = ("repomod", a.name if a.asname else top, node.lineno)
        elif isinstance(node, ast.ImportFrom):
            m = _abs_module(mi, node)
            for a in node.names:
                if a.name == "*":
                    continue
                if _is_dep_module_name(m):
                    mi.imports[a.asname or a.name] = ("pyattr", m, a.name, node.lineno)
                elif m.split(".")[0] in PACKAGES:
                    mi.imports[a.asname or a.name] = ("repo", m, a.name, node.lineno)


def _collect_classes(mi: ModuleInfo) -> None:
    def visit(body, prefix):
        for n in body:
            if isinstance(n, ast.ClassDef):
                qn = prefix + n.name
                ci = ClassInfo(RepoClass(mi.modname, qn), n, mi)
                for b in n.body:
                    if isinstance(b, (ast.FunctionDef, ast.AsyncFunctionDef)):
                        ci.methods.add(b.name)
                    elif isinstance(b, ast.Assign):
                        for t in b.targets:
                            if isinstance(t, ast.Name):
                                ci.methods.add(t.id)
                    elif isinstance(b, ast.AnnAssign) and isinstance(b.target, ast.Name):
                        ci.annotations[b.target.id] = b.annotation
                        if b.value is not None:
                            ci.methods.add(b.target.id)
                mi.classes[qn] = ci
                visit(n.body, qn + ".")
    visit(mi.tree.body, "")


# ----------------------------------------------------------------------------- resolver

class Resolver:
    def __init__(self, mods: dict[str, ModuleInfo]):
        self.mods = mods
        self._mro_cache: dict = {}

    # -- names ---------------------------------------------------------------
    def import_dep(self, module: str, attr: str | None = None, via: str = ""):
        try:
            m = importlib.import_module(module)
        except Exception as e:      # ImportError, or an error raised by the module body
            return Missing(module, f"{type(e).__name__}: {e}")
        if attr is None:
            return Py(m, module)
        try:
            return Py(getattr(m, attr), f"{module}.{attr}")
        except AttributeError:
            try:                     # `from pkg import submodule`
                return Py(importlib.import_module(f"{module}.{attr}"), f"{module}.{attr}")
            except Exception:
                return Missing(f"{module}.{attr}",
                               f"ImportError: cannot import name {attr!r} from {module!r}")

    def repo_name(self, module: str, name: str, depth: int = 0):
        """A name exported by a repo module: a class defined there, or a re-export."""
        if depth > 8:
            return None
        mi = self.mods.get(module)
        if mi is None:
            return None
        if name in mi.classes:
            return mi.classes[name].key
        imp = mi.imports.get(name)
        if imp is None:
            sub = self.mods.get(f"{module}.{name}")
            return ("repomod", sub.modname) if sub else None
        return self._from_import(imp, depth + 1)

    def _from_import(self, imp, depth=0):
        kind = imp[0]
        if kind == "pymod":
            return self.import_dep(imp[1])
        if kind == "pyattr":
            return self.import_dep(imp[1], imp[2])
        if kind == "repo":
            return self.repo_name(imp[1], imp[2], depth)
        if kind == "repomod":
            return ("repomod", imp[1])
        return None

    def resolve(self, mi: ModuleInfo, expr: ast.AST, scope_class: ClassInfo | None = None):
        """-> Py | RepoClass | Missing | ("repomod", name) | None"""
        if isinstance(expr, ast.Name):
            if expr.id in mi.imports:
                return self._from_import(mi.imports[expr.id])
            if expr.id in mi.classes:
                return mi.classes[expr.id].key
            return None
        if isinstance(expr, ast.Subscript):          # State[complex, torch.Tensor]
            return self.resolve(mi, expr.value, scope_class)
        if isinstance(expr, ast.Attribute):
            base = self.resolve(mi, expr.value, scope_class)
            if isinstance(base, Py):
                try:
                    return Py(getattr(base.obj, expr.attr), f"{base.name}.{expr.attr}")
                except AttributeError:
                    if isinstance(base.obj, types.ModuleType):
                        r = self.import_dep(f"{base.obj.__name__}.{expr.attr}")
                        if isinstance(r, Py):
                            return r
                    return Missing(f"{base.name}.{expr.attr}",
                                   f"AttributeError: {_qual(base.obj)} has no attribute {expr.attr!r}")
            if isinstance(base, tuple) and base[0] == "repomod":
                return self.repo_name(base[1], expr.attr)
            if isinstance(base, RepoClass):
                return ("member", base, expr.attr)
            return base if isinstance(base, Missing) else None
        return None

    # -- class hierarchy -----------------------------------------------------
    def class_info(self, key: RepoClass) -> ClassInfo | None:
        mi = self.mods.get(key.module)
        return mi.classes.get(key.name) if mi else None

    def mro(self, key: RepoClass) -> list:
        """Static C3 linearisation; entries are RepoClass or Py(class)."""
        if key in self._mro_cache:
            return self._mro_cache[key]
        self._mro_cache[key] = [key]           # cycle guard
        ci = self.class_info(key)
        seqs, bases = [], []
        for b in (ci.node.bases if ci else []):
            r = self.resolve(ci.mod, b)
            if isinstance(r, RepoClass):
                bases.append(r)
                seqs.append(list(self.mro(r)))
            elif isinstance(r, Py) and inspect.isclass(r.obj):
                bases.append(Py(r.obj, r.name))
                seqs.append([Py(c, _qual(c)) for c in r.obj.__mro__])
        seqs.append(list(bases))
        out = [key]
        while any(seqs):
            seqs = [s for s in seqs if s]
            for s in seqs:
                head = s[0]
                if not any(head in t[1:] for t in seqs):
                    break
            else:
                head = seqs[0][0]               # inconsistent hierarchy: fall back to DFS order
            out.append(head)
            seqs = [[x for x in s if x != head] for s in seqs]
        self._mro_cache[key] = out
        return out

    def derives_from_dep(self, key: RepoClass) -> list[str]:
        return [_qual(e.obj) for e in self.mro(key)
                if isinstance(e, Py) and _is_dep_module_name(getattr(e.obj, "__module__", ""))]

    def find_member(self, entries: list, name: str):
        """First definer of `name` along an MRO slice -> (entry, raw attribute | None)."""
        for e in entries:
            if isinstance(e, RepoClass):
                ci = self.class_info(e)
                if ci and name in ci.methods:
                    return e, None
            elif isinstance(e, Py) and name in vars(e.obj):
                return e, vars(e.obj)[name]
        return None, None

    # -- type inference for receivers ---------------------------------------
    def ann_type(self, mi: ModuleInfo, expr: ast.AST | None):
        if expr is None:
            return None
        if isinstance(expr, ast.Constant) and isinstance(expr.value, str):
            try:
                return self.ann_type(mi, ast.parse(expr.value, mode="eval").body)
            except SyntaxError:
                return None
        if isinstance(expr, ast.BinOp) and isinstance(expr.op, ast.BitOr):
            c = [t for t in (self.ann_type(mi, expr.left), self.ann_type(mi, expr.right)) if t is not None]
            return c[0] if len(c) == 1 else None
        if isinstance(expr, ast.Subscript):
            head = expr.value
            hn = head.id if isinstance(head, ast.Name) else getattr(head, "attr", "")
            if hn in ("Optional", "Union"):
                items = expr.slice.elts if isinstance(expr.slice, ast.Tuple) else [expr.slice]
                c = [t for t in (self.ann_type(mi, i) for i in items) if t is not None]
                return c[0] if len(c) == 1 else None
            return self.ann_type(mi, head)
        r = self.resolve(mi, expr)
        if isinstance(r, RepoClass):
            return r
        if isinstance(r, Py) and inspect.isclass(r.obj) and _is_dep_module_name(r.obj.__module__):
            return r
        return None

    @staticmethod
    def _norm_hint(h):
        if inspect.isclass(h):
            return h if _is_dep_module_name(getattr(h, "__module__", "")) else None
        origin = typing.get_origin(h)
        if origin is typing.Union or origin is types.UnionType:
            c = [a for a in typing.get_args(h) if inspect.isclass(a) and a is not type(None)
                 and _is_dep_module_name(getattr(a, "__module__", ""))]
            return c[0] if len(c) == 1 else None
        if inspect.isclass(origin) and _is_dep_module_name(getattr(origin, "__module__", "")):
            return origin
        return None

    def call_result_type(self, mi: ModuleInfo, call: ast.Call):
        """Type of `C(...)` (a class) or of a dependency callable with a declared return type."""
        r = self.resolve(mi, call.func)
        if isinstance(r, RepoClass):
            return r
        if isinstance(r, Py):
            if inspect.isclass(r.obj):
                return r if _is_dep_module_name(getattr(r.obj, "__module__", "")) else None
            fn = getattr(r.obj, "__func__", r.obj)
            try:
                h = self._norm_hint(typing.get_type_hints(fn).get("return"))
            except Exception:
                h = None
            return Py(h, _qual(h)) if h is not None else None
        return None

    def value_type(self, mi: ModuleInfo, value: ast.AST, env: dict):
        if isinstance(value, ast.Name):
            return env.get(value.id)
        if isinstance(value, ast.Call):
            return self.call_result_type(mi, value)
        return None

    def param_env(self, mi: ModuleInfo, fn: ast.FunctionDef) -> dict:
        env = {}
        a = fn.args
        for p in a.posonlyargs + a.args + a.kwonlyargs:
            t = self.ann_type(mi, p.annotation)
            if t is not None:
                env[p.arg] = t
        return env

    def inferred_fields(self, ci: ClassInfo) -> dict:
        """self.<attr> -> type, when every `self.attr = v` in the class body gives the same
        inferable type (v a typed parameter, or a constructor call)."""
        if ci.inferred is not None:
            return ci.inferred
        ci.inferred = {}
        seen: dict[str, list] = {}
        for fn in ci.node.body:
            if not isinstance(fn, (ast.FunctionDef, ast.AsyncFunctionDef)):
                continue
            args = fn.args.posonlyargs + fn.args.args
            if not args:
                continue
            me, env = args[0].arg, self.param_env(ci.mod, fn)
            for n in ast.walk(fn):
                if isinstance(n, ast.Assign):
                    for tg in n.targets:
                        if isinstance(tg, ast.Attribute) and isinstance(tg.value, ast.Name) and tg.value.id == me:
                            seen.setdefault(tg.attr, []).append(self.value_type(ci.mod, n.value, env))
        for attr, ts in seen.items():
            if ts and ts[0] is not None and all(t == ts[0] for t in ts):
                ci.inferred[attr] = ts[0]
        return ci.inferred

    def field_type(self, key: RepoClass, attr: str):
        for e in self.mro(key):
            if isinstance(e, RepoClass):
                ci = self.class_info(e)
                if ci is None:
                    continue
                if attr in ci.annotations:
                    return self.ann_type(ci.mod, ci.annotations[attr])
                if attr in self.inferred_fields(ci):
                    return ci.inferred[attr]
            elif isinstance(e, Py):
                mt = self.member_type(e.obj, attr)
                if mt is not None:
                    return Py(mt, _qual(mt))
        return None

    def field_hint(self, key: RepoClass, attr: str):
        """Raw dependency hint of attribute `attr` looked up along the MRO of a repo class."""
        for e in self.mro(key):
            if isinstance(e, Py):
                h = self.member_hint(e.obj, attr)
                if h is not None:
                    return h
        return None

    def member_hint(self, T, attr: str):
        """Declared (raw) type hint of attribute `attr` of dependency class T."""
        raw = inspect.getattr_static(T, attr, None)
        try:
            if isinstance(raw, property) and raw.fget is not None:
                return typing.get_type_hints(raw.fget).get("return")
            if isinstance(raw, functools.cached_property):
                return typing.get_type_hints(raw.func).get("return")
            return typing.get_type_hints(T).get(attr)
        except Exception:
            return None

    def member_type(self, T, attr: str):
        """Declared type of attribute `attr` of dependency class T (from pulser's annotations)."""
        return self._norm_hint(self.member_hint(T, attr))

    def element_type(self, h):
        """T for list[T] / tuple[T, ...] / Iterator[T] / Iterable[T] / Sequence[T] hints."""
        import collections.abc as cabc
        origin = typing.get_origin(h)
        if origin in (list, tuple, set, frozenset, cabc.Iterator, cabc.Iterable, cabc.Sequence,
                      cabc.Generator, cabc.Collection):
            args = [a for a in typing.get_args(h) if a is not Ellipsis]
            if args:
                return self._norm_hint(args[0])
        return None


# ----------------------------------------------------------------------------- checking

def _call_shape(call: ast.Call) -> dict:
    return {"positional": sum(1 for a in call.args if not isinstance(a, ast.Starred)),
            "star": any(isinstance(a, ast.Starred) for a in call.args),
            "keywords": [k.arg for k in call.keywords if k.arg is not None],
            "double_star": any(k.arg is None for k in call.keywords)}


def _signature_of(raw, bound_via_instance: bool):
    """-> (signature, number of implicit leading placeholders) or raises ValueError/TypeError."""
    if isinstance(raw, staticmethod):
        return inspect.signature(raw.__func__), 0
    if isinstance(raw, classmethod):
        return inspect.signature(raw.__func__), 1
    if inspect.isclass(raw):
        return inspect.signature(raw), 0
    if inspect.ismethod(raw):                        # already bound (classmethod via class)
        return inspect.signature(raw), 0
    return inspect.signature(raw), (1 if bound_via_instance else 0)


def _bind(sig: inspect.Signature, implicit: int, shape: dict) -> tuple[str, str]:
    args = [None] * (implicit + shape["positional"])
    kwargs = {k: None for k in shape["keywords"]}
    try:
        if shape["star"] or shape["double_star"]:
            ba = sig.bind_partial(*args, **kwargs)
            missing = [p.name for p in sig.parameters.values()
                       if p.default is p.empty and p.kind in (p.POSITIONAL_OR_KEYWORD, p.KEYWORD_ONLY,
                                                             p.POSITIONAL_ONLY)
                       and p.name not in ba.arguments]
            note = "partial bind (call site forwards */** arguments)"
            if missing:
                note += f"; required parameters that must come from them: {missing}"
            return "ok", note
        sig.bind(*args, **kwargs)
        return "ok", ""
    except TypeError as e:
        return "failed", f"TypeError: {e}"


class Scanner(ast.NodeVisitor):
    def __init__(self, res: Resolver, mi: ModuleInfo):
        self.res, self.mi = res, mi
        self.sites: list[Site] = []
        self.unresolved: list[dict] = []
        self._names: dict[str, int] = {}
        self.class_stack: list[ClassInfo] = []
        self.func_stack: list[ast.AST] = []
        self.env_stack: list[dict] = []
        self.qual: list[str] = []

    # -- bookkeeping ---------------------------------------------------------
    def _scope(self) -> str:
        return ".".join(self.qual) or "<module>"

    def _add(self, kind, node, callee_obj, callee_name, sig, shape, status, detail):
        base = f"bind/{self.mi.relfile}:{self._scope()}->{callee_name}"
        if kind == "import":
            base = f"import/{self.mi.relfile}:{callee_name}"
        k = self._names.get(base, 0) + 1
        self._names[base] = k
        name = base if k == 1 else f"{base}#{k}"
        seg = ast.get_source_segment(self.mi.src, node) or ""
        self.sites.append(Site(name, kind, self.mi.relfile, node.lineno, self._scope(),
                               " ".join(seg.split())[:200], callee_name,
                               None if sig is None else str(sig), shape, status, detail))

    def _check(self, kind, node: ast.Call, raw, callee_name: str, via_instance: bool):
        shape = _call_shape(node)
        try:
            sig, implicit = _signature_of(raw, via_instance)
        except (ValueError, TypeError) as e:
            self._add(kind, node, raw, callee_name, None, shape, "undecided",
                      f"no signature available for callee: {type(e).__name__}: {e}")
            return
        status, detail = _bind(sig, implicit, shape)
        self._add(kind, node, raw, callee_name, sig, shape, status, detail)

    # -- imports -------------------------------------------------------------
    def scan_imports(self):
        for local, imp in sorted((k, v) for k, v in self.mi.imports.items() if k != "__plain_imports__"):
            if imp[0] == "pyattr":
                r = self.res.import_dep(imp[1], imp[2])
                fake = ast.Pass(lineno=imp[3], col_offset=0, end_lineno=imp[3], end_col_offset=0)
                nm = f"{imp[1]}.{imp[2]}"
                ok = isinstance(r, Py)
                self._add("import", fake, None, nm, None, {}, "ok" if ok else "failed",
                          "" if ok else r.error)
        for nm, ln in self.mi.imports.get("__plain_imports__", []):
            r = self.res.import_dep(nm)
            fake = ast.Pass(lineno=ln, col_offset=0, end_lineno=ln, end_col_offset=0)
            ok = isinstance(r, Py)
            self._add("import", fake, None, nm, None, {}, "ok" if ok else "failed", "" if ok else r.error)

    # -- scopes --------------------------------------------------------------
    def visit_ClassDef(self, node):
        qn = ".".join([c.node.name for c in self.class_stack] + [node.name]) if not self.func_stack else None
        ci = self.mi.classes.get(qn) if qn else None
        self.qual.append(node.name)
        self.class_stack.append(ci) if ci else None
        saved_funcs, self.func_stack = self.func_stack, []
        for b in node.body:
            self.visit(b)
        for d in node.decorator_list + node.bases + [k.value for k in node.keywords]:
            self.visit(d)
        self.func_stack = saved_funcs
        if ci:
            self.class_stack.pop()
        self.qual.pop()

    def visit_FunctionDef(self, node):
        env = self.res.param_env(self.mi, node)
        for n in ast.walk(node):
            if isinstance(n, ast.AnnAssign) and isinstance(n.target, ast.Name):
                t = self.res.ann_type(self.mi, n.annotation)
                if t is not None:
                    env[n.target.id] = t
        # plain assignments: `v = C(...)` gives v the type C; any other re-assignment (or two
        # assignments of different types) makes the name untyped
        assigned: dict[str, list] = {}
        for n in ast.walk(node):
            if isinstance(n, ast.Assign):
                for tg in n.targets:
                    if isinstance(tg, ast.Name):
                        assigned.setdefault(tg.id, []).append(self.res.value_type(self.mi, n.value, env))
            elif isinstance(n, (ast.For, ast.AsyncFor, ast.comprehension)):
                for tg in ast.walk(n.target):
                    if isinstance(tg, ast.Name):
                        assigned.setdefault(tg.id, []).append(
                            ("loop", n.iter) if tg is n.target else None)
        loops = {}
        for name, ts in assigned.items():
            if all(isinstance(t, tuple) and t[0] == "loop" for t in ts):
                loops[name] = [t[1] for t in ts]
                continue
            ts = [None if isinstance(t, tuple) else t for t in ts]
            if name not in env and ts[0] is not None and all(t == ts[0] for t in ts):
                env[name] = ts[0]
            elif name in env and not all(t == env[name] for t in ts):
                env.pop(name)
        self.qual.append(node.name)
        self.func_stack.append(node)
        self.env_stack.append(env)
        # `for v in <expr>` where <expr> is `recv.attr` with a dependency hint Iterator[T] / list[T]
        for name, its in loops.items():
            if name in env:
                continue
            ets = [self.iter_elem_type(it, node) for it in its]
            if ets[0] is not None and all(e is ets[0] for e in ets):
                env[name] = Py(ets[0], _qual(ets[0]))
        self.generic_visit(node)
        self.env_stack.pop()
        self.func_stack.pop()
        self.qual.pop()

    visit_AsyncFunctionDef = visit_FunctionDef

    # -- receiver types ------------------------------------------------------
    def _cur_class(self) -> ClassInfo | None:
        return self.class_stack[-1] if self.class_stack and self.func_stack else None

    def _self_name(self) -> str | None:
        if not self.func_stack or not self._cur_class():
            return None
        f = self.func_stack[0]
        if any(isinstance(d, ast.Name) and d.id == "staticmethod" for d in f.decorator_list):
            return None
        args = f.args.posonlyargs + f.args.args
        return args[0].arg if args else None

    def iter_elem_type(self, it: ast.AST, fn: ast.AST, depth: int = 0):
        """Element type (a dependency class) of the iterable expression `it`:
        `recv.attr` with a dependency hint Sequence[T]/Iterator[T]/list[T], or a local name
        assigned once from `[v for v in <such an iterable> if ...]`."""
        if depth > 3:
            return None
        if isinstance(it, ast.Attribute):
            rt = self.type_of(it.value)
            if isinstance(rt, Py):
                return self.res.element_type(self.res.member_hint(rt.obj, it.attr))
            if isinstance(rt, tuple) and rt[0] == "self":
                rt = rt[1].key
            if isinstance(rt, RepoClass):
                return self.res.element_type(self.res.field_hint(rt, it.attr))
            return None
        if isinstance(it, ast.Name):
            defs = [n.value for n in ast.walk(fn) if isinstance(n, ast.Assign)
                    and any(isinstance(t, ast.Name) and t.id == it.id for t in n.targets)]
            if len(defs) == 1 and isinstance(defs[0], ast.ListComp) and len(defs[0].generators) == 1:
                g = defs[0].generators[0]
                if isinstance(g.target, ast.Name) and isinstance(defs[0].elt, ast.Name) \
                        and defs[0].elt.id == g.target.id:
                    return self.iter_elem_type(g.iter, fn, depth + 1)
        return None

    def type_of(self, expr: ast.AST):
        """-> Py(class) | RepoClass | ("self", ClassInfo) | None"""
        if isinstance(expr, ast.Name):
            if expr.id == self._self_name() and len(self.func_stack) == 1:
                return ("self", self._cur_class())
            for env in reversed(self.env_stack):
                if expr.id in env:
                    return env[expr.id]
            return None
        if isinstance(expr, ast.Attribute):
            t = self.type_of(expr.value)
            if isinstance(t, tuple) and t[0] == "self":
                return self.res.field_type(t[1].key, expr.attr)
            if isinstance(t, Py):
                mt = self.res.member_type(t.obj, expr.attr)
                return Py(mt, _qual(mt)) if mt is not None else None
            if isinstance(t, RepoClass):
                return self.res.field_type(t, expr.attr)
            return None
        if isinstance(expr, ast.Call):
            return self.res.call_result_type(self.mi, expr)
        return None

    # -- calls ---------------------------------------------------------------
    def visit_Call(self, node: ast.Call):
        self.generic_visit(node)
        f = node.func
        # super().m(...)
        if (isinstance(f, ast.Attribute) and isinstance(f.value, ast.Call)
                and isinstance(f.value.func, ast.Name) and f.value.func.id == "super"
                and not f.value.args):
            ci = self._cur_class()
            if ci is None:
                return
            m = self.res.mro(ci.key)
            definer, raw = self.res.find_member(m[1:], f.attr)
            if isinstance(definer, Py) and _is_dep_module_name(getattr(definer.obj, "__module__", "")):
                self._check("super", node, raw, f"{_qual(definer.obj)}.{f.attr}", True)
            return
        r = self.res.resolve(self.mi, f)
        if isinstance(r, Missing):
            self._add("direct", node, None, r.name, None, _call_shape(node), "failed", r.error)
            return
        if isinstance(r, Py):
            owner_mod = r.obj.__name__ if isinstance(r.obj, types.ModuleType) else getattr(r.obj, "__module__", None)
            if callable(r.obj) and (_is_dep_module_name(owner_mod) or _is_dep_module_name(r.name)):
                self._check("direct", node, r.obj, _qual(r.obj) if _is_dep_module_name(owner_mod) else r.name, False)
            return
        if isinstance(r, RepoClass):                   # C(...) with an inherited constructor
            for meth in ("__init__", "__new__"):
                definer, raw = self.res.find_member(self.res.mro(r), meth)
                if isinstance(definer, Py) and definer.obj is not object \
                        and _is_dep_module_name(getattr(definer.obj, "__module__", "")):
                    self._check("inherit", node, raw, f"{_qual(definer.obj)}.{meth}", True)
                if definer is not None and not (isinstance(definer, Py) and definer.obj is object):
                    break
            return
        if isinstance(r, tuple) and r[0] == "member":  # C.m(...)
            definer, raw = self.res.find_member(self.res.mro(r[1]), r[2])
            if isinstance(definer, Py) and _is_dep_module_name(getattr(definer.obj, "__module__", "")):
                # through the class: classmethods bind cls implicitly (handled in _signature_of),
                # plain functions receive self explicitly at the call site
                self._check("inherit", node, raw, f"{_qual(definer.obj)}.{r[2]}", False)
            return
        # obj(...) where obj is an instance of a (class deriving from a) dependency class
        if r is None:
            ti = self.type_of(f)
            if isinstance(ti, RepoClass):
                definer, raw = self.res.find_member(self.res.mro(ti), "__call__")
                if isinstance(definer, Py) and _is_dep_module_name(getattr(definer.obj, "__module__", "")):
                    self._check("inherit", node, raw, f"{_qual(definer.obj)}.__call__", True)
                    return
            elif isinstance(ti, Py) and not isinstance(f, ast.Call):
                raw = inspect.getattr_static(ti.obj, "__call__", None)
                if raw is not None and not isinstance(raw, type(object.__call__)):
                    self._check("method", node, raw, f"{_qual(ti.obj)}.__call__", True)
                    return
        # v.m(...) with an inferred receiver type
        if isinstance(f, ast.Attribute):
            t = self.type_of(f.value)
            if isinstance(t, tuple) and t[0] == "self":
                definer, raw = self.res.find_member(self.res.mro(t[1].key), f.attr)
                if isinstance(definer, Py) and _is_dep_module_name(getattr(definer.obj, "__module__", "")):
                    self._check("inherit", node, raw, f"{_qual(definer.obj)}.{f.attr}", True)
                return
            if isinstance(t, RepoClass):
                definer, raw = self.res.find_member(self.res.mro(t), f.attr)
                if isinstance(definer, Py) and _is_dep_module_name(getattr(definer.obj, "__module__", "")):
                    self._check("inherit", node, raw, f"{_qual(definer.obj)}.{f.attr}", True)
                return
            if isinstance(t, Py):
                raw = inspect.getattr_static(t.obj, f.attr, None)
                if raw is None:
                    # declared receiver type has no such member; subclasses or dynamic
                    # attributes may provide it -> listed, left to the smoke run
                    self.unresolved.append({"file": self.mi.relfile, "line": node.lineno, "scope": self._scope(),
                                            "expr": (ast.get_source_segment(self.mi.src, f) or "")[:120],
                                            "why": f"{_qual(t.obj)} declares no member {f.attr!r}"})
                    return
                if isinstance(raw, property) or not callable(getattr(t.obj, f.attr, None)):
                    return
                self._check("method", node, raw, f"{_qual(t.obj)}.{f.attr}", True)
                return
            # receiver of unknown type: remember chains rooted in something pulser-typed only
            pre, dep_prefix = f.value, None
            while isinstance(pre, ast.Attribute):
                pre = pre.value
                tp = self.type_of(pre)
                if isinstance(tp, Py):
                    dep_prefix = tp
                    break
            if dep_prefix is not None:
                self.unresolved.append({"file": self.mi.relfile, "line": node.lineno, "scope": self._scope(),
                                        "expr": (ast.get_source_segment(self.mi.src, f) or "")[:120],
                                        "why": "attribute type not declared in pulser's annotations"})


def derived_classes(res: Resolver) -> list[dict]:
    out = []
    for mi in res.mods.values():
        for qn, ci in mi.classes.items():
            deps = res.derives_from_dep(ci.key)
            if deps:
                out.append({"module": mi.modname, "class": qn, "file": mi.relfile, "line": ci.node.lineno,
                            "pulser_bases": deps})
    return sorted(out, key=lambda d: (d["module"], d["class"]))


def run_static(repo_root: str) -> dict:
    mods = load_modules(repo_root)
    res = Resolver(mods)
    sites, unresolved = [], []
    for mi in sorted(mods.values(), key=lambda m: m.relfile):
        sc = Scanner(res, mi)
        sc.scan_imports()
        sc.visit(mi.tree)
        sites += sc.sites
        unresolved += sc.unresolved
    return {"files": len(mods), "all_files": sorted(mi.relfile for mi in mods.values()), "sites": [s.to_json() for s in sites],
            "unresolved_receivers": unresolved, "derived_classes": derived_classes(res)}
