"""Declared dependency specifier(s) for pulser-core and the versions available offline."""
from __future__ import annotations

import glob
import importlib.metadata as md
import os
import re
import tomllib

from packaging.requirements import Requirement
from packaging.utils import canonicalize_name
from packaging.version import Version

DIST = "pulser-core"
WHEEL_DIRS = ("/opt/veriftools/wheels",)


def declared_specifiers(repo_root: str) -> list[dict]:
    """Every `pulser-core...` requirement in <repo>/pyproject.toml and <repo>/ci/*/pyproject.toml."""
    out = []
    files = [os.path.join(repo_root, "pyproject.toml")]
    files += sorted(glob.glob(os.path.join(repo_root, "ci", "*", "pyproject.toml")))
    for f in files:
        if not os.path.exists(f):
            continue
        with open(f, "rb") as fh:
            data = tomllib.load(fh)
        proj = data.get("project", {})
        deps = list(proj.get("dependencies", []))
        for extra in proj.get("optional-dependencies", {}).values():
            deps += list(extra)
        for d in deps:
            try:
                r = Requirement(d)
            except Exception:
                continue
            if canonicalize_name(r.name) == DIST:
                out.append({"file": os.path.relpath(f, repo_root), "requirement": d,
                            "specifier": str(r.specifier), "_spec": r.specifier})
    return out


def offline_versions() -> list[dict]:
    """pulser-core distributions that can be obtained without network: the installed one and
    any wheel lying in the offline wheel directories (or $CONFORM_WHEEL_DIRS)."""
    found = []
    try:
        v = md.version(DIST)
        found.append({"version": v, "source": "installed", "location": str(md.distribution(DIST).locate_file(""))})
    except md.PackageNotFoundError:
        pass
    dirs = list(WHEEL_DIRS) + [d for d in os.environ.get("CONFORM_WHEEL_DIRS", "").split(os.pathsep) if d]
    for d in dirs:
        for w in sorted(glob.glob(os.path.join(d, "*.whl"))):
            m = re.match(r"(?i)pulser[_-]core-([^-]+)-", os.path.basename(w))
            if m and not any(x["version"] == m.group(1) for x in found):
                found.append({"version": m.group(1), "source": "wheel", "location": w})
    return found


def admitted(repo_root: str) -> tuple[list[dict], list[dict], list[dict]]:
    """(specifiers, admitted offline versions, rejected offline versions).  A version is
    admitted when EVERY declared requirement accepts it (that is what pip would install
    for the project; each declared requirement is also listed separately)."""
    specs = declared_specifiers(repo_root)
    ok, rej = [], []
    for v in offline_versions():
        ver = Version(v["version"])
        per = {s["file"]: s["_spec"].contains(ver, prereleases=True) for s in specs}
        v = dict(v, accepted_by=per)
        (ok if specs and all(per.values()) else rej).append(v)
    for s in specs:
        s.pop("_spec")
    return specs, ok, rej
