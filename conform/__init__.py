"""Interface-conformance checker for property C31 (DESIGN.md section 2.3).

"Caller checked against the callee's contract" across the package boundary: the callee
contracts are the signatures (and a few value-shape contracts) of the *installed* pulser-core,
extracted mechanically with importlib + inspect; the callers are every call site from
<repo>/emu_base, emu_mps, emu_sv into pulser, found from the AST.

Runs under /venv/bin/python (needs pulser + torch):  python -m conform --repo /repo --tier quick
Prints one JSON document on stdout (last line starting with CONFORM-JSON:).
"""
PACKAGES = ("emu_base", "emu_mps", "emu_sv")
