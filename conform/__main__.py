"""python -m conform --repo DIR --tier quick|thorough [--seed N]

Must run under an interpreter that can import pulser and torch (/venv/bin/python), with DIR
first on sys.path so that emu_base/emu_mps/emu_sv are imported from DIR.
Prints a single line `CONFORM-JSON:<json>` on stdout.  Exit 0 when the report was produced
(the verdict is in the report), 3 on an internal crash.
"""
from __future__ import annotations

import argparse
import importlib
import inspect
import json
import os
import subprocess
import sys
import tempfile
import time
import traceback
import zipfile


def _attr_reads(crossings: list[dict]) -> None:
    """Mark crossings whose callee is a property / __getattr__ (an attribute read, not a call
    written in the source)."""
    for c in crossings:
        parts = c["callee"].split(".")
        c["attribute_read"] = parts[-1] in ("__getattr__", "__getattribute__")
        if c["attribute_read"] or "<locals>" in parts:
            continue
        for i in range(len(parts) - 1, 0, -1):
            try:
                obj = importlib.import_module(".".join(parts[:i]))
            except Exception:
                continue
            try:
                for p in parts[i:-1]:
                    obj = getattr(obj, p)
                raw = inspect.getattr_static(obj, parts[-1])
                c["attribute_read"] = isinstance(raw, property) or type(raw).__name__ == "cached_property"
            except Exception:
                pass
            break


def check_version(repo_root: str, tier: str, seed: int, version: dict) -> dict:
    from .static import run_static
    from .smoke import run_smoke
    import importlib.metadata as md
    t0 = time.time()
    import pulser
    out = {"version": version["version"], "source": version["source"],
           "pulser_file": os.path.dirname(pulser.__file__),
           "pulser_version_imported": getattr(pulser, "__version__", None)}
    if out["pulser_version_imported"] != version["version"]:
        out["crash"] = (f"asked to check pulser-core {version['version']} but the importable one is "
                        f"{out['pulser_version_imported']} at {out['pulser_file']}")
        return out
    try:
        out["torch"] = md.version("torch")
    except Exception:
        out["torch"] = None
    static = run_static(repo_root)
    out["static_wall_s"] = round(time.time() - t0, 2)
    t1 = time.time()
    smoke = run_smoke(repo_root, static, tier, seed)
    out["smoke_wall_s"] = round(time.time() - t1, 2)
    if smoke.get("crash"):
        out["crash"] = smoke["crash"]
    _attr_reads(smoke.get("crossings", []))
    checked = {(s["file"], s["line"]) for s in static["sites"] if s["kind"] != "import"}
    calls = [c for c in smoke.get("crossings", []) if not c["attribute_read"]]
    for c in calls:
        c["statically_checked"] = (c["file"], c["line"]) in checked
    out.update(static=static, smoke=smoke,
               dynamic={"crossings": len(smoke.get("crossings", [])),
                        "attribute_reads": sum(1 for c in smoke.get("crossings", []) if c["attribute_read"]),
                        "call_crossings": len(calls),
                        "call_crossings_statically_checked": sum(1 for c in calls if c["statically_checked"]),
                        "call_crossings_not_statically_checked":
                            [c for c in calls if not c["statically_checked"]]})
    out["wall_s"] = round(time.time() - t0, 2)
    return out


def main(argv=None) -> int:
    ap = argparse.ArgumentParser(prog="conform")
    ap.add_argument("--repo", default="/repo")
    ap.add_argument("--tier", default="quick", choices=["quick", "thorough"])
    ap.add_argument("--seed", type=int, default=0)
    ap.add_argument("--one-version", default=None, help=argparse.SUPPRESS)   # child mode
    a = ap.parse_args(argv)
    repo_root = os.path.realpath(a.repo)
    report = {"repo_root": repo_root, "tier": a.tier, "seed": a.seed, "python": sys.version.split()[0],
              "versions": [], "crash": None}
    try:
        from .spec import admitted
        if a.one_version:
            v = json.loads(a.one_version)
            report["versions"].append(check_version(repo_root, a.tier, a.seed, v))
        else:
            specs, ok, rej = admitted(repo_root)
            report.update(specifiers=specs, admitted=ok, rejected=rej)
            for v in ok:
                if v["source"] == "installed":
                    report["versions"].append(check_version(repo_root, a.tier, a.seed, v))
                else:                       # a wheel: unpack and check it in a child interpreter
                    with tempfile.TemporaryDirectory(prefix="conform_whl_") as td:
                        zipfile.ZipFile(v["location"]).extractall(td)
                        env = dict(os.environ)
                        env["PYTHONPATH"] = os.pathsep.join([td, repo_root, os.path.dirname(os.path.dirname(__file__))])
                        p = subprocess.run([sys.executable, "-m", "conform", "--repo", repo_root, "--tier", a.tier,
                                            "--seed", str(a.seed), "--one-version", json.dumps(v)],
                                           capture_output=True, text=True, env=env, cwd=repo_root, timeout=3000)
                        line = [ln for ln in p.stdout.splitlines() if ln.startswith("CONFORM-JSON:")]
                        if not line:
                            report["versions"].append({"version": v["version"], "source": "wheel",
                                                       "crash": f"child exit {p.returncode}: {p.stderr[-1500:]}"})
                        else:
                            report["versions"] += json.loads(line[-1][len("CONFORM-JSON:"):])["versions"]
    except Exception:
        report["crash"] = traceback.format_exc()
    sys.stdout.flush()
    print("CONFORM-JSON:" + json.dumps(report, default=str))
    return 3 if report["crash"] else 0


if __name__ == "__main__":
    sys.exit(main())
