"""Run-time part: BOUNDED SMOKE obligations (one small construction per backend).

These are not proofs over all inputs: each obligation is evaluated on one 3-atom sequence
(plus one noisy variant and one XY variant with an SLM mask; 4 atoms in the thorough tier) under the pulser-core
that is importable in this process.  They decide the clauses of C31 that a signature check
cannot: values pulser hands back have the shape/type the emulators assume, every observable
the packages define or re-export can be constructed, each backend Impl can be constructed,
and both backends run end to end and return `Results`.

While they run, a profiler records every Python-level call that crosses from a repo frame
into a pulser frame ("dynamic boundary crossings"); the static scanner's coverage is
measured against that list.
"""
from __future__ import annotations

import dataclasses
import importlib
import inspect
import os
import sys
import time
import traceback

from . import PACKAGES


class Recorder:
    """sys.setprofile hook: (repo call site) -> (pulser callee) crossings."""

    def __init__(self, repo_root: str, dep_dir: str):
        self.roots = tuple(os.path.join(os.path.realpath(repo_root), p) + os.sep for p in PACKAGES)
        self.repo_root = os.path.realpath(repo_root)
        self.dep_dir = os.path.realpath(dep_dir) + os.sep
        self.crossings: dict[tuple, int] = {}

    def __call__(self, frame, event, arg):
        if event != "call":
            return
        co = frame.f_code
        if not co.co_filename.startswith(self.dep_dir):
            return
        back = frame.f_back
        if back is None or not back.f_code.co_filename.startswith(self.roots):
            return
        key = (os.path.relpath(back.f_code.co_filename, self.repo_root), back.f_lineno,
               os.path.relpath(co.co_filename, os.path.dirname(self.dep_dir.rstrip(os.sep)))[:-3].replace(os.sep, ".")
               + "." + getattr(co, "co_qualname", co.co_name))
        self.crossings[key] = self.crossings.get(key, 0) + 1


class Obligations:
    def __init__(self):
        self.items: list[dict] = []

    def run(self, name: str, fn, *, what: str, where: str = ""):
        t0 = time.time()
        rec = {"obligation": name, "kind": "smoke", "what": what, "where": where, "bounded": True}
        try:
            note = fn()
            rec.update(status="ok", detail=note or "")
        except Undecided as e:
            rec.update(status="undecided", detail=str(e))
        except BaseException as e:                                   # noqa: BLE001 - the native exception IS the evidence
            if isinstance(e, (KeyboardInterrupt, SystemExit)):
                raise
            tb = traceback.format_exc()
            rec.update(status="failed", detail=f"{type(e).__name__}: {e}", exception=type(e).__name__,
                       traceback=tb[-3500:], raised_at=_innermost_repo_or_dep_frame(e))
        rec["wall_s"] = round(time.time() - t0, 3)
        self.items.append(rec)
        return rec


class Undecided(Exception):
    pass


def _innermost_repo_or_dep_frame(e: BaseException) -> str:
    fr = traceback.extract_tb(e.__traceback__)
    return f"{fr[-1].filename}:{fr[-1].lineno} in {fr[-1].name}" if fr else ""


def check(cond: bool, msg: str):
    if not cond:
        raise AssertionError(msg)


# ----------------------------------------------------------------------------- fixtures

def build_sequence(n_atoms: int = 3, kind: str = "ising"):
    """A short constant pulse on n atoms in a line (MockDevice), like the repo's tests build."""
    import pulser
    reg = pulser.Register({f"q{i}": (7.0 * i, 0.0) for i in range(n_atoms)})
    seq = pulser.Sequence(reg, pulser.MockDevice)
    if kind == "ising":
        seq.declare_channel("ch0", "rydberg_global")
        seq.add(pulser.Pulse.ConstantDetuning(pulser.BlackmanWaveform(100, 3.14159), 0.5, 0.0), "ch0")
    else:                                   # XY mode with an SLM mask, as test/utils_testing builds it
        seq.declare_channel("ch0", "mw_global")
        seq.config_slm_mask([reg.qubit_ids[-1]])
        seq.add(pulser.Pulse.ConstantDetuning(pulser.BlackmanWaveform(52, 1.5707), 0.0, 0.0), "ch0")
        seq.add(pulser.Pulse.ConstantPulse(100, 3.0, 0.0, 0.0), "ch0")
    return seq


def _synth_arg(p: inspect.Parameter, factories: dict):
    if p.name in factories:
        return factories[p.name]()
    table = {"evaluation_times": [1.0], "data": [0.0], "timestep_count": 1, "mps_site": 0,
             "num_shots": 10, "one_state": None}
    if p.name in table:
        return table[p.name]
    ann = p.annotation if isinstance(p.annotation, str) else getattr(p.annotation, "__name__", str(p.annotation))
    for key, val in (("bool", False), ("int", 0), ("float", 0.0), ("str", "s"), ("Sequence", [1.0]),
                     ("list", []), ("dict", {}), ("None", None)):
        if key in ann:
            return val
    raise Undecided(f"cannot synthesise a value for required parameter {p.name!r}: {ann}")


def construct(cls, factories: dict):
    """Call cls with a synthesised value for every parameter without default (plus
    evaluation_times=[1.0] when accepted, so that the observable is evaluated in the e2e run)."""
    sig = inspect.signature(cls)
    kwargs = {}
    for p in sig.parameters.values():
        if p.kind in (p.VAR_POSITIONAL, p.VAR_KEYWORD):
            continue
        if p.default is p.empty or p.name == "evaluation_times":
            kwargs[p.name] = _synth_arg(p, factories)
    pos = [kwargs.pop(p.name) for p in sig.parameters.values()
           if p.kind is p.POSITIONAL_ONLY and p.name in kwargs]
    return cls(*pos, **kwargs)


# ----------------------------------------------------------------------------- the run

def run_smoke(repo_root: str, static: dict, tier: str, seed: int) -> dict:
    import torch
    import pulser
    torch.manual_seed(seed)
    try:
        import numpy as np
        np.random.seed(seed % (2**32))
    except Exception:
        pass
    ob = Obligations()
    rec = Recorder(repo_root, os.path.dirname(pulser.__file__))

    # -- every module imports, and comes from repo_root -------------------------------
    wrong_origin = []
    modules = sorted({s["file"] for s in static["sites"]} | set(static.get("all_files", [])))
    for rel in modules:
        parts = rel[:-3].split(os.sep)
        modname = ".".join(parts[:-1] if parts[-1] == "__init__" else parts)

        def _imp(modname=modname):
            m = importlib.import_module(modname)
            f = os.path.realpath(getattr(m, "__file__", "") or "")
            if not f.startswith(os.path.realpath(repo_root) + os.sep):
                wrong_origin.append((modname, f))
        ob.run(f"smoke/import:{modname}", _imp, what=f"import {modname}", where=rel)
    if wrong_origin:
        return {"crash": f"repo modules were not imported from {repo_root}: {wrong_origin[:3]}",
                "obligations": ob.items, "crossings": []}

    sys.setprofile(rec)
    try:
        _run_obligations(ob, repo_root, static, tier, seed)
    finally:
        sys.setprofile(None)
    cross = [{"file": k[0], "line": k[1], "callee": k[2], "calls": v} for k, v in sorted(rec.crossings.items())]
    return {"obligations": ob.items, "crossings": cross}


def _run_obligations(ob: Obligations, repo_root: str, static: dict, tier: str, seed: int):
    import torch
    import pulser
    from pulser.backend import Results

    N = 3
    # -- pulser-derived classes are concrete -------------------------------------------
    for d in static["derived_classes"]:
        def _abs(d=d):
            cls = _get(d["module"], d["class"])
            left = sorted(getattr(cls, "__abstractmethods__", ()))
            check(not left, f"{d['module']}.{d['class']} leaves abstract methods of "
                            f"{d['pulser_bases'][0]} unimplemented: {left}")
        ob.run(f"smoke/abstract:{d['module']}:{d['class']}", _abs,
               what="class deriving from a pulser ABC implements all abstract methods of the installed version",
               where=f"{d['file']}:{d['line']}")

    # -- observables: defined in the repo, and re-exported by emu_mps / emu_sv ----------
    def mps_state():
        from emu_mps import MPS
        return MPS.from_state_amplitudes(eigenstates=("r", "g"), amplitudes={"r" * N: 1.0})

    def mps_op():
        from emu_mps import MPO
        return MPO.from_operator_repr(eigenstates=("r", "g"), n_qudits=N,
                                      operations=[(1.0, [({"rr": 1.0}, [0])])])

    def sv_state():
        from emu_sv import StateVector
        return StateVector.from_state_amplitudes(eigenstates=("r", "g"), amplitudes={"r" * N: 1.0})

    def sv_op():
        from emu_sv import DenseOperator
        return DenseOperator.from_operator_repr(eigenstates=("r", "g"), n_qudits=N,
                                                operations=[(1.0, [({"rr": 1.0}, [0])])])

    factories = {"emu_mps": {"state": mps_state, "operator": mps_op},
                 "emu_sv": {"state": sv_state, "operator": sv_op}}
    from pulser.backend.observable import Observable
    built: dict[str, list] = {"emu_mps": [], "emu_sv": []}
    for d in static["derived_classes"]:
        if "pulser.backend.observable.Observable" not in d["pulser_bases"]:
            continue
        pkg = d["module"].split(".")[0]

        def _mk(d=d, pkg=pkg):
            cls = _get(d["module"], d["class"])
            o = construct(cls, factories.get(pkg, {}))
            check(isinstance(o, Observable), "not an Observable")
            exported = d["class"] in getattr(importlib.import_module(pkg), "__all__", [])
            if exported:
                built[pkg].append(o)
            return f"constructed {o!r}"[:160]
        ob.run(f"smoke/observable-construct:{d['module']}:{d['class']}", _mk,
               what="Observable subclass defined in the repo can be constructed",
               where=f"{d['file']}:{d['line']}")
    for pkg in ("emu_mps", "emu_sv"):
        try:
            mod = importlib.import_module(pkg)
        except Exception:
            continue
        for name in sorted(getattr(mod, "__all__", [])):
            obj = getattr(mod, name, None)
            if not (inspect.isclass(obj) and issubclass(obj, Observable)
                    and obj.__module__.startswith("pulser")):
                continue

            def _mk2(obj=obj, pkg=pkg):
                o = construct(obj, factories[pkg])
                built[pkg].append(o)
                return f"constructed {o!r}"[:160]
            ob.run(f"smoke/observable-construct:{pkg}:{name}", _mk2,
                   what=f"observable re-exported by {pkg} can be constructed with {pkg}'s state/operator types",
                   where=f"{pkg}/__init__.py")

    # -- contracts on values pulser hands to emu_base.pulser_adapter ---------------------
    seq = build_sequence(N)
    holder: dict = {}

    def _pulser_data():
        from emu_base import PulserData
        from emu_sv import SVConfig
        cfg = SVConfig(dt=10, observables=[pulser.backend.BitStrings(evaluation_times=[1.0])],
                       log_level=100, gpu=False)
        holder["pd"] = PulserData(sequence=seq, config=cfg, dt=cfg.dt)
        holder["samples"] = list(holder["pd"].hamiltonian.noisy_samples)
        check(len(holder["samples"]) >= 1, "HamiltonianData.noisy_samples is empty")
    ob.run("smoke/contract:pulser-data-construct", _pulser_data,
           what="emu_base.PulserData(sequence, config, dt) can be built (HamiltonianData.from_sequence, "
                "basis_data, noise model, private SLM attributes)", where="emu_base/pulser_adapter.py:PulserData.__init__")

    def need(*keys):
        for k in keys:
            if k not in holder:
                raise Undecided(f"depends on a failed obligation ({k} unavailable)")

    def matrix_contract(sequence, Config, extra, N=N):
        """The adapter must turn whatever pulser packs into trajectory.interaction_matrix into the
        n x n matrix the backends index by qubit: n x n as is, or the first of k packed n x n
        matrices (pulser >= 1.9 documents (1,N,N), and (2,N,N) = (C3, C6) in XY mode)."""
        from emu_base import PulserData
        cfg = Config(dt=10, observables=[pulser.backend.BitStrings(evaluation_times=[1.0])], log_level=100, **extra)
        pdx = PulserData(sequence=sequence, config=cfg, dt=cfg.dt)
        raw = [s.trajectory.interaction_matrix.as_tensor() for s in pdx.hamiltonian.noisy_samples]
        shapes = sorted({tuple(m.shape) for m in raw})
        try:
            sds = list(pdx.get_sequences())
        except Exception as e:
            raise type(e)(f"{e} [pulser trajectory.interaction_matrix.as_tensor() has shape {shapes}, "
                          f"PulserData.get_sequences indexes it as ({N}, {N})]") from e
        for sd, m in zip(sds, raw):
            got = sd.interaction_matrix(sd.target_times[-1])
            check(tuple(got.shape) == (N, N),
                  f"SequenceData.interaction_matrix(t) has shape {tuple(got.shape)}, expected ({N}, {N}); pulser's "
                  f"trajectory.interaction_matrix.as_tensor() has shape {tuple(m.shape)}")
            ref = m if m.dim() == 2 else m[0]
            check(torch.allclose(got, ref.to(got.dtype)), "adapter matrix differs from pulser's (first packed) matrix")
            early = sd.interaction_matrix(0.0)
            check(tuple(early.shape) == (N, N), f"masked matrix has shape {tuple(early.shape)}")
        return f"pulser shape(s) {shapes} -> ({N}, {N})"

    def _c_matrix():
        from emu_sv import SVConfig
        return matrix_contract(seq, SVConfig, {"gpu": False})
    ob.run("smoke/contract:interaction-matrix-from-trajectory", _c_matrix,
           what="PulserData.get_sequences turns samples.trajectory.interaction_matrix into the n x n matrix the backends index",
           where="emu_base/pulser_adapter.py:PulserData.get_sequences")

    def _c_matrix_cfg():
        from emu_base import PulserData
        from emu_sv import SVConfig
        given = torch.tensor([[0.0, 1.0, 0.5], [1.0, 0.0, 1.0], [0.5, 1.0, 0.0]], dtype=torch.float64)
        cfg = SVConfig(dt=10, observables=[pulser.backend.BitStrings(evaluation_times=[1.0])], log_level=100,
                       gpu=False, interaction_matrix=given.tolist())
        shape = tuple(cfg.interaction_matrix.as_tensor().shape)
        try:
            sds = list(PulserData(sequence=seq, config=cfg, dt=cfg.dt).get_sequences())
        except Exception as e:
            raise type(e)(f"{e} [pulser stores config.interaction_matrix with shape {shape}]") from e
        for sd in sds:
            got = sd.interaction_matrix(sd.target_times[-1])
            check(tuple(got.shape) == (N, N), f"shape {tuple(got.shape)}; config.interaction_matrix has shape {shape}")
            check(torch.allclose(got.to(torch.float64), given), "adapter matrix differs from the configured one")
        return f"pulser shape {shape} -> ({N}, {N})"
    ob.run("smoke/contract:interaction-matrix-from-config", _c_matrix_cfg,
           what="a user-supplied EmulationConfig.interaction_matrix (n x n) reaches the backends as that n x n matrix",
           where="emu_base/pulser_adapter.py:PulserData.__init__")

    seq_xy = build_sequence(N, "XY")

    def _c_matrix_xy():
        from emu_mps import MPSConfig
        return matrix_contract(seq_xy, MPSConfig, {"num_gpus_to_use": 0})
    ob.run("smoke/contract:xy-interaction-matrix-from-trajectory", _c_matrix_xy,
           what="same in XY mode with an SLM mask (masked rows/columns are indexed by qubit)",
           where="emu_base/pulser_adapter.py:PulserData.get_sequences")

    # register sizes that coincide with the number of matrices pulser packs (2 in XY mode, 1 otherwise): a
    # "packed or not" decision taken from the leading dimension instead of the rank goes wrong exactly there
    seq_xy2 = build_sequence(2, "XY")

    def _c_matrix_xy2():
        from emu_mps import MPSConfig
        return matrix_contract(seq_xy2, MPSConfig, {"num_gpus_to_use": 0}, N=2)
    ob.run("smoke/contract:xy-interaction-matrix-2-atoms", _c_matrix_xy2,
           what="XY mode with exactly 2 atoms: pulser packs (2, 2, 2); the adapter must still hand out the 2 x 2 matrix",
           where="emu_base/pulser_adapter.py:PulserData.get_sequences")
    seq2 = build_sequence(2)

    def _c_matrix_2():
        from emu_sv import SVConfig
        return matrix_contract(seq2, SVConfig, {"gpu": False}, N=2)
    ob.run("smoke/contract:interaction-matrix-2-atoms", _c_matrix_2,
           what="ising mode with 2 atoms (pulser packs (1, 2, 2))",
           where="emu_base/pulser_adapter.py:PulserData.get_sequences")

    def _c_nested():
        need("samples", "pd")
        for s in holder["samples"]:
            d = s.samples.to_nested_dict(all_local=True, samples_type="tensor")["Local"]
            check(len(d) == 1 and set(d) <= {"ground-rydberg", "XY"}, f"Local bases: {sorted(d)}")
            per = next(iter(d.values()))
            check(set(per) == set(holder["pd"].qubit_ids), f"qubits in samples {sorted(per)}")
            for q, sig in per.items():
                for k in ("amp", "det", "phase"):
                    check(k in sig, f"missing {k!r} for {q}")
                    check(len(torch.as_tensor(sig[k])) == s.samples.max_duration,
                          f"{k} has {len(sig[k])} samples, max_duration={s.samples.max_duration}")
            check(s.samples.max_duration == holder["pd"].target_times[-1], "max_duration != last target time")
    ob.run("smoke/contract:samples-nested-dict-layout", _c_nested,
           what='to_nested_dict(all_local=True, samples_type="tensor")["Local"][basis][qubit][amp|det|phase] '
                "are length-max_duration tensors", where="emu_base/pulser_adapter.py:_extract_omega_delta_phi")

    def _c_traj():
        need("samples", "pd")
        tot = 0
        for s in holder["samples"]:
            ba = s.trajectory.bad_atoms
            check(tuple(ba.keys()) == tuple(holder["pd"].qubit_ids), f"bad_atoms keys {list(ba)}")
            check(all(isinstance(v, (bool,)) or str(type(v).__name__) == "bool_" for v in ba.values()), "bad_atoms values not bool")
            check(isinstance(s.reps, int) and s.reps >= 1, f"reps={s.reps!r}")
            tot += s.reps
        bd = holder["pd"].hamiltonian.basis_data
        check(bd.interaction_type in ("ising", "XY"), f"interaction_type={bd.interaction_type!r}")
        check(bd.dim == len(bd.eigenbasis) and all(isinstance(e, str) for e in bd.eigenbasis),
              f"dim={bd.dim} eigenbasis={bd.eigenbasis}")
        return f"{len(holder['samples'])} noisy sample(s), {tot} repetition(s)"
    ob.run("smoke/contract:trajectory-and-basis-data", _c_traj,
           what="trajectory.bad_atoms is {qubit_id: bool} in register order, reps >= 1, basis_data.dim == len(eigenbasis)",
           where="emu_base/pulser_adapter.py:PulserData")

    def _c_seqdata():
        need("pd")
        sds = list(holder["pd"].get_sequences())
        holder["sd_raw"] = sds[0]
        check(len(sds) >= 1, "get_sequences() yielded nothing")
        for sd in sds:
            T = len(sd.target_times)
            for nm in ("omega", "delta", "phi"):
                check(tuple(getattr(sd, nm).shape) == (T - 1, N), f"{nm}.shape={tuple(getattr(sd, nm).shape)}")
            check(len(sd.qubit_ids) == N and len(sd.bad_atoms) == N, "qubit_ids/bad_atoms length")
    ob.run("smoke/contract:sequence-data-shapes", _c_seqdata,
           what="every SequenceData from PulserData.get_sequences() has (T-1) x n drives, n qubit ids and n bad-atom flags",
           where="emu_base/pulser_adapter.py:PulserData.get_sequences")

    def seqdata_nxn():
        """SequenceData for the Impl-construction obligations.  If pulser delivered a 1 x n x n
        matrix (its own obligation above), the HARNESS reshapes it so that Impl construction is
        judged independently; the end-to-end obligations below use no such help."""
        need("sd_raw")
        sd = holder["sd_raw"]
        if tuple(sd.interaction_matrix(0.0).shape) == (N, N):
            return sd, ""
        orig = sd.interaction_matrix
        return (dataclasses.replace(sd, interaction_matrix=lambda t: orig(t)[0]),
                " (harness reshaped the interaction matrix to n x n)")

    def _impl_mps():
        from emu_mps import MPSConfig
        from emu_mps.mps_backend_impl import MPSBackendImpl
        sd, note = seqdata_nxn()
        impl = MPSBackendImpl(MPSConfig(dt=10, log_level=100, num_gpus_to_use=0,
                                        observables=[pulser.backend.BitStrings(evaluation_times=[1.0])]), sd)
        check(isinstance(impl.results, Results), "impl.results is not a pulser Results")
        return "constructed" + note
    ob.run("smoke/impl-construct:emu_mps.mps_backend_impl:MPSBackendImpl", _impl_mps,
           what="MPSBackendImpl(config, sequence_data) can be constructed", where="emu_mps/mps_backend_impl.py")

    def _impl_sv():
        from emu_sv import SVConfig
        from emu_sv.sv_backend_impl import SVBackendImpl
        sd, note = seqdata_nxn()
        impl = SVBackendImpl(SVConfig(dt=10, log_level=100, gpu=False,
                                      observables=[pulser.backend.BitStrings(evaluation_times=[1.0])]), sd)
        check(isinstance(impl.results, Results), "impl.results is not a pulser Results")
        return "constructed" + note
    ob.run("smoke/impl-construct:emu_sv.sv_backend_impl:SVBackendImpl", _impl_sv,
           what="SVBackendImpl(config, sequence_data) can be constructed", where="emu_sv/sv_backend_impl.py")

    # -- end to end ------------------------------------------------------------------------
    def e2e(pkg: str, sequence, noise=None, n_traj=None, observables=None):
        mod = importlib.import_module(pkg)
        if pkg == "emu_mps":
            Backend, Config, extra = mod.MPSBackend, mod.MPSConfig, {"num_gpus_to_use": 0}
        else:
            Backend, Config, extra = mod.SVBackend, mod.SVConfig, {"gpu": False}
        obs = list(built[pkg]) if observables is None else observables
        if not obs:
            raise Undecided("no observable could be constructed")
        kw = dict(dt=10, observables=obs, log_level=100, **extra)
        if noise is not None:
            kw["noise_model"] = noise
        if n_traj is not None:
            kw["n_trajectories"] = n_traj
        res = Backend(sequence, config=Config(**kw)).run()
        check(isinstance(res, Results), f"run() returned {type(res).__name__}, not pulser.backend.Results")
        tags = set(res.get_result_tags())
        missing = [o.tag for o in obs if o.tag not in tags]
        check(not missing, f"results lack observables {missing}; have {sorted(tags)}")
        for o in obs:
            check(len(res.get_result_times(o)) >= 1, f"no evaluation time stored for {o.tag}")
        return f"Results with {len(tags)} tags: {sorted(tags)}"

    ob.run("smoke/e2e:emu_mps:MPSBackend", lambda: e2e("emu_mps", seq),
           what=f"MPSBackend(seq, config).run() on {N} atoms returns Results holding every constructed observable",
           where="emu_mps/mps_backend.py:MPSBackend.run")
    ob.run("smoke/e2e:emu_sv:SVBackend", lambda: e2e("emu_sv", seq),
           what=f"SVBackend(seq, config).run() on {N} atoms returns Results holding every constructed observable",
           where="emu_sv/sv_backend.py:SVBackend.run")

    def noisy(pkg):
        nm = pulser.NoiseModel(relaxation_rate=0.1, amp_sigma=0.05)
        simple = [o for o in built[pkg] if type(o).__name__ in ("BitStrings", "Occupation")]
        return e2e(pkg, seq, noise=nm, n_traj=2, observables=simple or None)
    ob.run("smoke/e2e-noisy:emu_mps:MPSBackend", lambda: noisy("emu_mps"),
           what="noisy run (relaxation + amplitude noise, 2 trajectories): jump operators, Results.aggregate",
           where="emu_mps/mps_backend.py:MPSBackend.run")
    ob.run("smoke/e2e-noisy:emu_sv:SVBackend", lambda: noisy("emu_sv"),
           what="noisy run (relaxation + amplitude noise, 2 trajectories): density matrix, Results.aggregate",
           where="emu_sv/sv_backend.py:SVBackend.run")

    def xy(pkg):
        simple = [o for o in built[pkg] if type(o).__name__ in ("BitStrings", "Occupation")]
        return e2e(pkg, seq_xy, observables=simple or None)
    ob.run("smoke/e2e-xy:emu_mps:MPSBackend", lambda: xy("emu_mps"),
           what=f"XY (mw_global) {N}-atom run with an SLM mask (masked rows/columns of the interaction matrix)",
           where="emu_mps/mps_backend.py:MPSBackend.run")

    def xy2(pkg):
        simple = [o for o in built[pkg] if type(o).__name__ in ("BitStrings", "Occupation")]
        return e2e(pkg, seq_xy2, observables=simple or None)
    ob.run("smoke/e2e-xy-2atoms:emu_mps:MPSBackend", lambda: xy2("emu_mps"),
           what="XY (mw_global) run with exactly 2 atoms (register size == number of packed interaction matrices)",
           where="emu_mps/mps_backend.py:MPSBackend.run")

    if tier == "thorough":
        seq4 = build_sequence(4)

        def bigger(pkg):
            simple = [o for o in built[pkg] if type(o).__name__ in ("BitStrings", "Occupation", "Energy")]
            return e2e(pkg, seq4, observables=simple or None)
        ob.run("smoke/e2e-4atoms:emu_mps:MPSBackend", lambda: bigger("emu_mps"),
               what="4-atom run", where="emu_mps/mps_backend.py:MPSBackend.run")
        ob.run("smoke/e2e-4atoms:emu_sv:SVBackend", lambda: bigger("emu_sv"),
               what="4-atom run", where="emu_sv/sv_backend.py:SVBackend.run")


def _get(module: str, qualname: str):
    obj = importlib.import_module(module)
    for part in qualname.split("."):
        obj = getattr(obj, part)
    return obj
