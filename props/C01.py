"""C01 -- emu-sv noiseless runs reproduce the Pulser Hamiltonian dynamics (wiring clauses)."""
from contracts import sv_wiring

ID = "C01"
LEVEL = "proof"
REPLAY = "replay/c01.py"
# bounded complement to the proof (pyvc/runner.py _start_native_side_check): the native falsifier also runs when all
# obligations discharge -- floats are reals in the proofs (A1) and only the functions under contract are covered
NATIVE_SIDE_CHECK = {"quick": True, "thorough": True}


NOT_DECIDED = [
    "closeness of krylov_exp's result to exp(A)v (floating-point numerical analysis; C07 decides the flag clauses)",
    "that H x is the dense Hamiltonian times x for all register sizes (C06: bounded in the number of atoms)",
    "agreement with Pulser's reference emulator within the discretisation error (relational, numerical)",
    "Hermiticity, trace one and positivity of the density matrix (C16)",
]


def build(reg):
    sv_wiring.register(reg, ID)
    T = sv_wiring.TE
    return dict(
        targets=[f"{T}:EvolveStateVector.evolve", f"{T}:EvolveStateVector.forward", f"{T}:EvolveDensityMatrix.apply",
                 f"{sv_wiring.SVIMPL}:SVBackendImpl._evolve_step"]
                + [f"{sv_wiring.SVIMPL}:{l}" for l in sv_wiring.INIT_LABELS],
        not_decided=NOT_DECIDED,
        trusted=["torch.autograd.Function.apply(*args) calls forward(ctx, *args)",
                 "krylov_exp and the operator action H*x / L@x are uninterpreted here (C07, C06)",
                 "the step loop and the per-step dt are C14's obligations"],
    )


# negative controls (thorough tier): (name, file, old text, new text)
CONTROLS = [('wrong sign of the generator',
  'emu_sv/time_evolution.py',
  '            return -1j * dt * (ham * x)\n\n        res = krylov_exp(',
  '            return 1j * dt * (ham * x)\n\n        res = krylov_exp('),
 ('matrix queried at the end of the step',
  'emu_sv/sv_backend_impl.py',
  'self.interaction_matrix(self.target_times[step_idx]),',
  'self.interaction_matrix(self.target_times[step_idx + 1]),'),
 ('time unit factor dropped', 'emu_sv/sv_backend_impl.py', 'dt * _TIME_CONVERSION_COEFF,', 'dt,'),
 ('drives of the previous step',
  'emu_sv/sv_backend_impl.py',
  '            self.omega[step_idx],',
  '            self.omega[max(step_idx - 1, 0)],')]
