"""C34 -- multi-trajectory results aggregate all simulated trajectories."""
from contracts import config, runs, sequences

ID = "C34"
LEVEL = "proof"
REPLAY = "replay/c34.py"
# bounded complement to the proof (pyvc/runner.py _start_native_side_check): the native falsifier also runs when all
# obligations discharge -- floats are reals in the proofs (A1) and only the functions under contract are covered
NATIVE_SIDE_CHECK = {"quick": False, "thorough": True}



def build(reg):
    sequences.register(reg, "C34")
    runs.register(reg, "C34")
    config.register_pulser_data(reg, "C34")
    A = sequences.ADAPTER
    return dict(
        targets=[f"{A}:PulserData.get_sequences[register matrix]", f"{A}:PulserData.get_sequences[custom matrix]",
                 "emu_mps.mps_backend:MPSBackend.run", "emu_sv.sv_backend:SVBackend.run", f"{A}:PulserData.__init__"],
        not_decided=["that mean-aggregated observables equal the average of the per-trajectory values and that "
                     "bitstring counts add up: this is pulser's Results.aggregate (a dependency; assumed contract)"],
        trusted=["pulser: sum of samples.reps over hamiltonian.noisy_samples == the n_trajectories it was asked for (A4); "
                 "that it is asked for config.n_trajectories is proved (PulserData.__init__)",
                 "pulser Results.aggregate combines exactly the list it is given (mean / bag-union per observable)"],
    )


# negative controls (thorough tier): (name, file, old text, new text)
CONTROLS = [('aggregate only the first trajectory',
  'emu_mps/mps_backend.py',
  'return Results.aggregate(results)',
  'return Results.aggregate(results[:1])'),
 ('at least one repetition per sample',
  'emu_base/pulser_adapter.py',
  'range(samples.reps)',
  'range(max(samples.reps, 1))'),
 ('emu-sv drops the last trajectory',
  'emu_sv/sv_backend.py',
  'return Results.aggregate(results)',
  'return Results.aggregate(results[:-1])')]
