"""C34 -- multi-trajectory results aggregate all simulated trajectories."""
from contracts import runs, sequences

ID = "C34"
LEVEL = "proof"
REPLAY = "replay/c34.py"


def build(reg):
    sequences.register(reg, "C34")
    runs.register(reg, "C34")
    A = sequences.ADAPTER
    return dict(
        targets=[f"{A}:PulserData.get_sequences[register matrix]", f"{A}:PulserData.get_sequences[custom matrix]",
                 "emu_mps.mps_backend:MPSBackend.run", "emu_sv.sv_backend:SVBackend.run"],
        not_decided=["that mean-aggregated observables equal the average of the per-trajectory values and that "
                     "bitstring counts add up: this is pulser's Results.aggregate (a dependency; assumed contract)"],
        trusted=["pulser: sum of samples.reps over hamiltonian.noisy_samples == n_trajectories (A4)",
                 "pulser Results.aggregate combines exactly the list it is given (mean / bag-union per observable)"],
    )
