"""C10 -- MPS truncation and canonical form honour their contract."""
from contracts import mps_canon, mps_utils

ID = "C10"
LEVEL = "proof"
REPLAY = "replay/c10.py"


def build(reg):
    targets = mps_canon.register(reg, "C10")        # registers contracts/mps_utils.py as well
    U = mps_utils.UTILS
    return dict(
        targets=[f"{U}:_determine_cutoff_index", f"{U}:split_matrix", f"{U}:split_matrix[isometry]"] + targets,
        explanation=(
            "The factor list is an abstract data structure (contracts/mps_canon.py): symbolic number of sites, "
            "ghost arrays chiL/chiR (bond dimensions), iso (left/right orthonormality tag per site) and disc "
            "(weight discarded per bond, ABSOLUTE units of the state the list represents now: scaling one factor "
            "by alpha multiplies every disc(j) by |alpha|^2).  Proved for every number of sites and all bond "
            "dimensions: truncate_impl / MPS.truncate / MPS.__add__ leave every bond <= max_bond_dim, every site "
            ">= 1 right-orthonormal, centre 0 declared, and unless the cap binds the weight discarded at each bond "
            "is <= precision^2 in absolute units; MPS.orthogonalize establishes Canon(self) for the requested "
            "centre by gauge moves only (no weight discarded, no bond grows); MPS.norm returns the norm of the "
            "tensor at the declared centre of a canonical state; MPS.apply, scalar *, _evolve and evolve_pair keep "
            "the declared centre truthful and pass precision / max_bond_dim / orth_center_right through."),
        not_decided=[
            "that split_matrix's product l @ r equals m projected on the kept eigenvectors (l = m q_k): entries of "
            "matrix products over a symbolic dimension are uninterpreted; the contract pins the shapes, the cut "
            "index, the dropped weight of the spectrum and that the isometric factor is q's trailing columns",
            "floating point: orthonormality up to rounding, and eigh of the Gram matrix resolving singular values "
            "below about 1e-8 * |m| (A1: floats are reals here)",
            "noisy runs (has_lindblad_noise): split_matrix(preserve_norm=True) rescales the kept part on purpose; "
            "the absolute discarded weight of that step is excluded from the _evolve budget clause",
            "MPO.apply_to / zip_right (they call truncate_impl on 4-leg factors) and minimize_energy_pair (DMRG): "
            "not under contract",
            "that a split never increases a bond (k <= old bond): needs the rank of the Gram matrix, not claimed by C10",
            "callers of orthogonalize that are not listed (sample, expect_batch, entanglement_entropy, "
            "get_correlation_matrix) are covered only through orthogonalize's contract",
        ],
        trusted=[
            "torch.linalg.eigh returns ascending real eigenvalues and a unitary matrix (A4)",
            "torch.linalg.qr(m) = (q, r) with m = q r, q with orthonormal columns, reduced shapes "
            "(rows x min, min x cols) (A4)",
            "torch.tensordot contracts exactly the named legs; result shape as documented (A4)",
            "Tensor.view / .mT / .contiguous regroup legs row-major without changing entries (A3): a (a, s, b) tensor "
            "viewed (a*s, b) has orthonormal columns iff it is left-orthonormal, viewed (a, s*b) orthonormal rows "
            "iff right-orthonormal",
            "linear algebra link (not mechanised): for a state whose factors left of site i are left-orthonormal and "
            "right of it right-orthonormal, (1) its norm is the Frobenius norm of factor i, (2) replacing factor i, "
            "viewed as a matrix m, by l r with r = q_k^H (q_k = kept eigenvectors of m^H m) changes the state by "
            "exactly the sum of the dropped eigenvalues, (3) replacing factor i by the Q of its QR and absorbing R "
            "into the neighbour across the factorised bond leaves the state unchanged, (4) successive truncation "
            "errors of a sweep are orthogonal, so the total error^2 is the sum of the per-bond weights",
            "emu_mps.algebra.scale_factors / add_factors, MPS.__init__, make_op, evolve_single are modelled from "
            "reading them (new list with one factor scaled / direct-sum bond dimensions / fields set / two-site "
            "tensor shape / shape kept); krylov_exp returns a tensor of the shape of its argument (accuracy: C07)",
            "all factors of a list have the same physical dimension and no empty leg (every dimension >= 1: "
            "assumed for the initial list, proved at every store `stored-factor-nonempty`); tensors reachable from a factor list are not "
            "modified in place through an alias (x = factors[i]; x *= c is outside the model)",
        ],
    )
