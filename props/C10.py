"""C10 -- MPS truncation and canonical form honour their contract."""
from contracts import mps_canon, mps_utils

ID = "C10"
LEVEL = "proof"
REPLAY = "replay/c10.py"
# bounded complement to the proof (pyvc/runner.py _start_native_side_check): the native falsifier also runs when all
# obligations discharge -- floats are reals in the proofs (A1) and only the functions under contract are covered
NATIVE_SIDE_CHECK = {"quick": True, "thorough": True}



def build(reg):
    targets = mps_canon.register(reg, "C10")        # registers contracts/mps_utils.py as well
    U = mps_utils.UTILS
    return dict(
        targets=[f"{U}:_determine_cutoff_index", f"{U}:split_matrix", f"{U}:split_matrix[isometry]"] + targets,
        explanation=(
            "The factor list is an abstract data structure (contracts/mps_canon.py): symbolic number of sites, "
            "ghost arrays chiL/chiR (bond dimensions), iso (left/right orthonormality tag per site) and disc "
            "(weight discarded per bond, ABSOLUTE units of the state the list represents now: scaling one factor "
            "by alpha multiplies every disc(j) by |alpha|^2).  Proved for every number of sites and all bond "
            "dimensions: truncate_impl / MPS.truncate / MPS.__add__ leave every bond <= max_bond_dim, every site "
            ">= 1 right-orthonormal, centre 0 declared, and unless the cap binds the weight discarded at each bond "
            "is <= precision^2 in absolute units; MPS.orthogonalize establishes Canon(self) for the requested "
            "centre by gauge moves only (no weight discarded, no bond grows); MPS.norm returns the norm of the "
            "tensor at the declared centre of a canonical state; MPS.apply, scalar *, _evolve and evolve_pair keep "
            "the declared centre truthful and pass precision / max_bond_dim / orth_center_right through."),
        not_decided=[
            "that split_matrix's product l @ r equals m projected on the kept eigenvectors (l = m q_k): entries of "
            "matrix products over a symbolic dimension are uninterpreted; the contract pins the shapes, the cut "
            "index, the dropped weight of the spectrum and that the isometric factor is q's trailing columns",
            "floating point: orthonormality up to rounding, and eigh of the Gram matrix resolving singular values "
            "below about 1e-8 * |m| (A1: floats are reals here)",
            "noisy runs (has_lindblad_noise): split_matrix(preserve_norm=True) rescales the kept part on purpose; "
            "the absolute discarded weight of that step is excluded from the _evolve budget clause",
            "MPO.apply_to / zip_right (they call truncate_impl on 4-leg factors) and minimize_energy_pair (DMRG): "
            "not under contract",
            "that a split never increases a bond (k <= old bond): needs the rank of the Gram matrix, not claimed by C10",
            "callers of orthogonalize that are not listed (sample, expect_batch, entanglement_entropy, "
            "get_correlation_matrix) are covered only through orthogonalize's contract",
        ],
        trusted=[
            "torch.linalg.eigh returns ascending real eigenvalues and a unitary matrix (A4)",
            "torch.linalg.qr(m) = (q, r) with m = q r, q with orthonormal columns, reduced shapes "
            "(rows x min, min x cols) (A4)",
            "torch.tensordot contracts exactly the named legs; result shape as documented (A4)",
            "Tensor.view / .mT / .contiguous regroup legs row-major without changing entries (A3): a (a, s, b) tensor "
            "viewed (a*s, b) has orthonormal columns iff it is left-orthonormal, viewed (a, s*b) orthonormal rows "
            "iff right-orthonormal",
            "linear algebra link (not mechanised): for a state whose factors left of site i are left-orthonormal and "
            "right of it right-orthonormal, (1) its norm is the Frobenius norm of factor i, (2) replacing factor i, "
            "viewed as a matrix m, by l r with r = q_k^H (q_k = kept eigenvectors of m^H m) changes the state by "
            "exactly the sum of the dropped eigenvalues, (3) replacing factor i by the Q of its QR and absorbing R "
            "into the neighbour across the factorised bond leaves the state unchanged, (4) successive truncation "
            "errors of a sweep are orthogonal, so the total error^2 is the sum of the per-bond weights",
            "emu_mps.algebra.scale_factors / add_factors, MPS.__init__, make_op, evolve_single are modelled from "
            "reading them (new list with one factor scaled / direct-sum bond dimensions / fields set / two-site "
            "tensor shape / shape kept); krylov_exp returns a tensor of the shape of its argument (accuracy: C07)",
            "all factors of a list have the same physical dimension and no empty leg (every dimension >= 1: "
            "assumed for the initial list, proved at every store `stored-factor-nonempty`); tensors reachable from a factor list are not "
            "modified in place through an alias (x = factors[i]; x *= c is outside the model)",
        ],
    )


# negative controls (thorough tier): (name, file, old text, new text)
CONTROLS = [
    ('truncation sweep leaves the isometry on the wrong side',
     'emu_mps/utils.py', 'orth_center_right=False,', 'orth_center_right=True,'),
    ('truncation sweep allows one bond more than the cap',
     'emu_mps/utils.py', 'max_rank=max_bond_dim,', 'max_rank=max_bond_dim + 1,'),
    ('truncation sweep stops one bond early',
     'emu_mps/utils.py', 'for i in range(len(factors) - 1, 0, -1):', 'for i in range(len(factors) - 1, 1, -1):'),
    ('cutoff index off by one',
     'emu_mps/utils.py', '        if acc > squared_max_error:\n            return i',
     '        if acc >= squared_max_error:\n            return i + 1'),
    ('split_matrix keeps the smallest instead of the largest directions',
     'emu_mps/utils.py', 'right = q[:, max_bond:].T.conj_physical()',
     'right = q[:, : q.shape[1] - max_bond].T.conj_physical()'),
    ('truncate declares the centre on the last site',
     'emu_mps/mps.py', 'self.orthogonality_center = 0', 'self.orthogonality_center = self.num_sites - 1'),
    ('truncate normalises before the sweep and restores the norm afterwards (relative budget; seeded change C10-a)',
     'emu_mps/mps.py',
     '        self.orthogonalize(self.num_sites - 1)\n        truncate_impl(\n'
     '            self.factors, precision=self.precision, max_bond_dim=self.max_bond_dim\n        )\n',
     '        self.orthogonalize(self.num_sites - 1)\n        norm = self.factors[-1].norm()\n'
     '        self.factors[-1] = self.factors[-1] / norm\n        truncate_impl(\n'
     '            self.factors, precision=self.precision, max_bond_dim=self.max_bond_dim\n        )\n'
     '        self.factors[0] = self.factors[0] * norm\n'),
    ('right-to-left orthogonalisation sweep stops one site early',
     'emu_mps/mps.py', 'for i in range(rl_swipe_start, desired_orthogonality_center, -1):',
     'for i in range(rl_swipe_start, desired_orthogonality_center + 1, -1):'),
    ('right-to-left sweep absorbs R through the wrong leg',
     'emu_mps/mps.py', 'self.factors[i - 1], r.to(self.factors[i - 1].device), ([2], [1])',
     'self.factors[i - 1], r.to(self.factors[i - 1].device), ([2], [0])'),
    ('norm() reads the first tensor instead of the centre',
     'emu_mps/mps.py', 'return self.factors[orthogonality_center].norm().cpu()', 'return self.factors[0].norm().cpu()'),
    ('scalar multiplication scales site 0 instead of the centre',
     'emu_mps/mps.py', 'factors = scale_factors(self.factors, scalar, which=which)',
     'factors = scale_factors(self.factors, scalar, which=0)'),
    ('_evolve declares the centre on the wrong side',
     'emu_mps/mps_backend_impl.py', 'self.state.orthogonality_center = r if orth_center_right else l',
     'self.state.orthogonality_center = l if orth_center_right else r'),
    ('evolve_pair doubles the bond cap',
     'emu_mps/solver_utils.py',
     '        max_rank=config.max_bond_dim,\n        orth_center_right=orth_center_right,\n        preserve_norm',
     '        max_rank=2 * config.max_bond_dim,\n        orth_center_right=orth_center_right,\n        preserve_norm'),
]
