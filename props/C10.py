"""C10 -- MPS truncation and canonical form honour their contract."""
from contracts import mps_canon, mps_utils

ID = "C10"
LEVEL = "proof"
REPLAY = "replay/c10.py"


def build(reg):
    targets = mps_canon.register(reg, "C10")        # registers contracts/mps_utils.py as well
    U = mps_utils.UTILS
    return dict(
        targets=[f"{U}:_determine_cutoff_index", f"{U}:split_matrix", f"{U}:split_matrix[isometry]"] + targets,
        not_decided=[],
        trusted=["torch.linalg.eigh returns ascending real eigenvalues and a unitary matrix (A4)"],
    )
