"""Shared run_custom machinery for the Engine-B (symtorch) properties C05 / C06 / C12 / C13.

The symbolic driver runs in its own interpreter with PYTHONPATH=/verif/symtorch:
/verif/symtorch/harness:<repo_root>, so the modules under test are imported fresh from the
tree named on the command line and nothing of the shim leaks into the runner.

Exit codes: 0 every explored case matched | 1 mismatch (VIOLATION line, replay file)
            2 undecided (an op the shim does not model, controls not applicable, ...)
            3 checker crash (driver error, shim/real-torch disagreement, a control that passes)
"""
from __future__ import annotations

import json
import os
import re
import shutil
import subprocess
import sys
import tempfile
import time

VERIF = os.path.dirname(os.path.dirname(os.path.abspath(__file__)))
SHIM = os.path.join(VERIF, "symtorch")
HARNESS = os.path.join(SHIM, "harness")
SYM_PY = "python3-vt"
NATIVE_PY = "/venv/bin/python"
REPLAY = os.path.join(VERIF, "replay", "engineb.py")
PROBE = os.path.join(VERIF, "replay", "engineb_probe.py")
PKGS = ("emu_base", "emu_mps", "emu_sv")


def _env(repo_root):
    e = dict(os.environ)
    e["PYTHONPATH"] = os.pathsep.join([SHIM, HARNESS, repo_root])
    e["PYTHONDONTWRITEBYTECODE"] = "1"
    e["PYTHONHASHSEED"] = "0"
    for k in ("OMP_NUM_THREADS", "OPENBLAS_NUM_THREADS", "MKL_NUM_THREADS"):
        e[k] = "1"
    return e


def run_driver(prop, tier, repo_root, seed, control=False, stop_on_first=False, timeout=3000, jobs=None):
    fd, out = tempfile.mkstemp(prefix=f"engineb_{prop}_", suffix=".json")
    os.close(fd)
    cmd = [SYM_PY, "-m", "symharness.driver", "--prop", prop, "--tier", tier, "--repo", repo_root,
           "--out", out, "--seed", str(seed)]
    if control:
        cmd.append("--control")
    if stop_on_first:
        cmd.append("--stop-on-first")
    if jobs:
        cmd += ["--jobs", str(jobs)]
    try:
        p = subprocess.run(cmd, env=_env(repo_root), cwd=VERIF, capture_output=True, text=True, timeout=timeout)
        try:
            with open(out) as f:
                res = json.load(f)
        except Exception:
            res = dict(error=f"driver produced no result file (exit {p.returncode}):\n{p.stderr[-3000:]}", results=[])
        return res
    except subprocess.TimeoutExpired:
        return dict(error=f"driver timed out after {timeout} s", results=[])
    finally:
        try:
            os.remove(out)
        except OSError:
            pass


# ------------------------------------------------------------------------------------------
# negative controls: mutate a scratch copy, the check must report a mismatch
# ------------------------------------------------------------------------------------------
def scratch_copy(repo_root):
    d = tempfile.mkdtemp(prefix="engineb_ctrl_")
    for pkg in PKGS:
        src = os.path.join(repo_root, pkg)
        if os.path.isdir(src):
            shutil.copytree(src, os.path.join(d, pkg),
                            ignore=shutil.ignore_patterns("__pycache__", "*.pyc"))
    return d


def run_controls(prop, controls, repo_root, seed, tier):
    out = []
    for c in controls:
        rec = dict(name=c["name"], file=c["file"], old=c["old"], new=c["new"])
        src = os.path.join(repo_root, c["file"])
        try:
            with open(src) as f:
                text = f.read()
        except OSError as e:
            rec.update(outcome="not-applicable", why=f"cannot read {c['file']}: {e}")
            out.append(rec)
            continue
        from pyvc.textmut import mutate
        mutated, why = mutate(text, c["old"], c["new"])
        if mutated is None:
            rec.update(outcome="not-applicable", why=f"{c['file']}: {why}")
            out.append(rec)
            continue
        d = scratch_copy(repo_root)
        try:
            with open(os.path.join(d, c["file"]), "w") as f:
                f.write(mutated)
            t0 = time.time()
            res = run_driver(prop, "quick", d, seed, control=True, stop_on_first=True, timeout=1800)
            hits = [r for r in res.get("results", []) if r["status"] in ("mismatch", "raised")]
            rec["wall_s"] = round(time.time() - t0, 2)
            if res.get("error") and "timed out" in res["error"]:
                # a slow machine, not a blind check: recorded, not fatal
                rec.update(outcome="timeout", why=res["error"][-300:])
            elif res.get("error"):
                rec.update(outcome="error", why=res["error"][-800:])
            elif hits:
                h = hits[0]
                rec.update(outcome="caught", how=h["status"], case={k: v for k, v in h["case"].items() if not k.startswith("_")},
                           detail=(h["mismatches"][0] if h["status"] == "mismatch" else h["exception"]["type"] + ": " + h["exception"]["message"][:200]))
            else:
                un = [r for r in res.get("results", []) if r["status"] in ("unsupported", "crash")]
                rec.update(outcome="missed" if not un else "error",
                           why=(un[0].get("op") or un[0].get("traceback", ""))[-500:] if un else "every case still matched")
        finally:
            shutil.rmtree(d, ignore_errors=True)
        out.append(rec)
    return out


# ------------------------------------------------------------------------------------------
def native_replay(path, repo_root, script=None):
    REPLAY = script or globals()["REPLAY"]
    env = dict(os.environ)
    env["PYTHONPATH"] = repo_root
    env["PYTHONDONTWRITEBYTECODE"] = "1"
    try:
        p = subprocess.run([NATIVE_PY, REPLAY, path, repo_root], capture_output=True, text=True,
                           timeout=900, cwd=VERIF, env=env)
        return dict(cmd=f"{NATIVE_PY} {REPLAY} {path} {repo_root}", exit=p.returncode,
                    stdout=p.stdout[-4000:], stderr="\n".join(l for l in p.stderr.splitlines() if "conda" not in l.lower())[-2000:],
                    reproduced=(p.returncode == 1 and "REPRODUCED" in p.stdout and "NOT-REPRODUCED" not in p.stdout))
    except Exception as e:          # noqa: BLE001
        return dict(error=repr(e), reproduced=False)


def _start_native_side_check(spec, tier, seed, repo_root):
    """spec['native_falsifier'] = script: started next to the symbolic driver, collected before the verdict"""
    script = spec.get("native_falsifier")
    if not script or not spec.get("native_falsifier_tiers", {}).get(tier, True):
        return None
    env = dict(os.environ)
    env.update(PYTHONPATH=repo_root, PYTHONDONTWRITEBYTECODE="1", VERIF_SEED=str(seed), OMP_NUM_THREADS="1")
    os.makedirs(os.path.join(VERIF, "replays"), exist_ok=True)
    path = os.path.join(VERIF, "replays", f"{spec['id']}__native-side-check.json")
    with open(path, "w") as f:
        json.dump(dict(property=spec["id"], kind="side-check", obligation=f"{spec['id']}/native-side-check",
                       repo_root=repo_root, seed=int(seed), script=script), f, indent=1)
    p = subprocess.Popen([NATIVE_PY, os.path.join(VERIF, script), path, repo_root], stdout=subprocess.PIPE,
                         stderr=subprocess.PIPE, text=True, cwd=VERIF, env=env)
    return dict(proc=p, path=path, script=script, t0=time.time())


def _finish_native_side_check(side, prop, repo_root):
    if side is None:
        return None
    try:
        out, err = side["proc"].communicate(timeout=1500)
        rc = side["proc"].returncode
    except subprocess.TimeoutExpired:
        side["proc"].kill()
        out, err, rc = "", "timed out", None
    reproduced = rc == 1 and "REPRODUCED" in out and "NOT-REPRODUCED" not in out
    rec = dict(kind="bounded-native", script=side["script"], exit=rc, reproduced=reproduced,
               wall_s=round(time.time() - side["t0"], 2), stdout=out,
               note="bounded: the sampled inputs of the property's native falsifier; never counted as proved")
    if reproduced:
        with open(side["path"]) as f:
            j = json.load(f)
        j.update(native=dict(cmd=f"{NATIVE_PY} {side['script']} {side['path']} {repo_root}", exit=rc,
                             stdout=out[-4000:], reproduced=True), reproduced_natively=True)
        with open(side["path"], "w") as f:
            json.dump(j, f, indent=1)
        rec["replay"] = side["path"]
    else:
        if rc != 0:
            # did not finish / harness error: recorded, never a verdict
            print(f"NOTE: native side check of {prop} did not complete (exit {rc}): {(err or out)[-200:]!r}")
        try:
            os.remove(side["path"])
        except OSError:
            pass
    return rec


def shim_selftest(seed):
    """differential op-by-op test of the shim against real torch; -> (ok, summary dict)"""
    script = os.path.join(SHIM, "selftest", "difftest.py")
    p = subprocess.run([SYM_PY, script, "--seed", str(seed)], capture_output=True, text=True, timeout=1200,
                       cwd=VERIF, env={**os.environ, "PYTHONDONTWRITEBYTECODE": "1"})
    try:
        summary = json.loads(p.stdout.strip().splitlines()[-1])
    except Exception:
        summary = dict(error=(p.stdout + p.stderr)[-2000:])
    return p.returncode == 0 and not summary.get("error"), summary


def _clean(case):
    return {k: v for k, v in case.items() if not k.startswith("_")}


def run(spec, tier, seed, repo_root):
    """spec: dict(id, explanation, bounds, controls, quick_controls, assumptions, trusted, min_cases, exhaustive)"""
    t0 = time.time()
    prop = spec["id"]
    repo_root = os.path.realpath(repo_root)
    side = _start_native_side_check(spec, tier, seed, repo_root)
    res = run_driver(prop, tier, repo_root, seed, timeout=2400)
    results = res.get("results", [])
    by = {}
    for r in results:
        by.setdefault(r["status"], []).append(r)
    ok = by.get("ok", [])
    bad = sorted(by.get("mismatch", []) + by.get("raised", []), key=lambda r: json.dumps(_clean(r["case"]), sort_keys=True))
    unsupported = by.get("unsupported", [])
    crashes = by.get("crash", [])
    rc = 0
    messages = []

    # ---- violations: replay files + native replay
    violations = []
    undecided_raised = []
    os.makedirs(os.path.join(VERIF, "replays"), exist_ok=True)
    seen_sig = {}
    # richest cases first: a degenerate case (all drives zero ...) may not show natively what a generic one does
    bad = sorted(bad, key=lambda r: -len(r.get("symbols", [])))
    for r in bad:
        sig = (r["case"]["kind"], r["status"], (r["mismatches"][0]["check"] if r["status"] == "mismatch" else r["exception"]["type"]))
        # one replay per kind of mismatch; for a case that RAISED under the shim (possibly a shim/torch divergence) up to
        # six cases are tried natively until one reproduces
        limit = 6 if r["status"] == "raised" else 1
        if seen_sig.get(sig) == "reproduced" or seen_sig.get(sig, 0) >= limit or len(violations) >= 4:
            continue
        seen_sig[sig] = seen_sig.get(sig, 0) + 1
        name = f"{prop}__{r['case']['kind']}_{len(violations)}"
        path = os.path.join(VERIF, "replays", re.sub(r"[^A-Za-z0-9_.#-]+", "_", name) + ".json")
        rec = dict(property=prop, engine="symtorch (bounded, symbolic entries)", case=_clean(r["case"]),
                   status=r["status"], mismatches=r.get("mismatches"), exception=r.get("exception"),
                   n_symbols=len(r.get("symbols", [])), env=r.get("env"), repo_root=repo_root,
                   note="`got` is what the real module computed on symbolic entries, `want` the dense "
                        "specification; they differ as polynomials, i.e. for almost every value of the symbols. "
                        "`env` is one numeric assignment at which they differ.", native=None)
        with open(path, "w") as f:
            json.dump(rec, f, indent=1)
        nat = native_replay(path, repo_root)
        rec["native"] = nat
        rec["reproduced_natively"] = nat.get("reproduced", False)
        with open(path, "w") as f:
            json.dump(rec, f, indent=1)
        if r["status"] == "raised" and not nat.get("reproduced"):
            undecided_raised.append((r, path))
        else:
            if nat.get("reproduced"):
                seen_sig[sig] = "reproduced"
            violations.append((r, path, nat.get("reproduced", False)))
    if violations:
        # raised-under-the-shim cases of a signature that did reproduce natively for a richer case are settled
        undecided_raised = [(r, p) for r, p in undecided_raised
                            if seen_sig.get((r["case"]["kind"], r["status"], r["exception"]["type"])) != "reproduced"]

    # ---- undecided cases (a value-dependent decision the shim cannot follow): bounded native search
    # for a failing input of the same case; an undecided case alone is never a violation
    probes = []
    seen_u = set()
    for r in sorted(unsupported, key=lambda r: json.dumps(_clean(r["case"]), sort_keys=True)):
        sig = (r["case"]["kind"], r.get("op"))
        if sig in seen_u and len(probes) >= 3:
            continue
        if len(probes) >= 8 or any(p["reproduced"] for p in probes):
            break
        seen_u.add(sig)
        name = f"{prop}__undecided_{r['case']['kind']}_{len(probes)}"
        path = os.path.join(VERIF, "replays", re.sub(r"[^A-Za-z0-9_.#-]+", "_", name) + ".json")
        rec = dict(property=prop, engine="symtorch (bounded) left the case undecided; native panel search",
                   case=_clean(r["case"]), status="undecided", op=r.get("op"), where=r.get("where"),
                   seed=int(seed), repo_root=repo_root, env=None, native=None)
        with open(path, "w") as f:
            json.dump(rec, f, indent=1)
        nat = native_replay(path, repo_root, script=PROBE)
        with open(path) as f:
            rec = json.load(f)
        rec["native"] = nat
        rec["reproduced_natively"] = nat.get("reproduced", False)
        with open(path, "w") as f:
            json.dump(rec, f, indent=1)
        probes.append(dict(case=_clean(r["case"]), reproduced=nat.get("reproduced", False), replay=path))
        if nat.get("reproduced"):
            r = dict(r, status="mismatch", mismatches=[dict(check="native panel search of an undecided case",
                                                              detail=nat.get("stdout", "")[-600:])])
            violations.append((r, path, True))

    # ---- native side check (bounded, sampled): the operations the shim cannot follow, on real torch
    side_rec = _finish_native_side_check(side, prop, repo_root)
    if side_rec and side_rec.get("reproduced"):
        r = dict(case=dict(kind="native-falsifier"), status="mismatch",
                 mismatches=[dict(check="native falsifier (side check)", detail=side_rec["stdout"][-800:])])
        violations.append((r, side_rec["replay"], True))

    # ---- controls / shim self-test
    controls = spec["controls"] if tier == "thorough" else [c for c in spec["controls"] if c["name"] in spec["quick_controls"]]
    ctrl = []
    selftest = None
    if not res.get("error") and not crashes:
        ctrl = run_controls(prop, controls, repo_root, seed, tier)
        if tier == "thorough":
            st_ok, selftest = shim_selftest(seed)
            if not st_ok:
                messages.append("CHECKER-CRASH: the shim disagrees with real torch (differential self-test): "
                                + json.dumps(selftest)[:1500])
                rc = max(rc, 3)
    missed = [c for c in ctrl if c["outcome"] == "missed"]
    cerr = [c for c in ctrl if c["outcome"] == "error"]
    applicable = [c for c in ctrl if c["outcome"] in ("caught", "missed")]

    # ---- evidence
    digests = {r["digest"] for r in ok if r["nonzero"] > 0}
    ops = sorted({o for r in results for o in r.get("ops", [])})
    step = max(1, len(ok) // 6)
    samples = [dict(case=_clean(r["case"]), status=r["status"], checks=r["checks"], entries_compared=r["entries"],
                    nonzero_spec_entries=r["nonzero"], symbols=len(r["symbols"]), time_s=r["time_s"])
               for r in sorted(ok, key=lambda r: json.dumps(_clean(r["case"]), sort_keys=True))[::step][:8]]
    samples += [dict(case=_clean(r["case"]), status=r["status"], detail=(r.get("mismatches") or [r.get("exception")])[0])
                for r in bad[:3]]
    cov = dict(
        explanation=spec["explanation"],
        bounds=spec["bounds"],
        evaluations=len(results),
        distinct_nontrivial=len(digests),
        rule="one evaluation = one case (sizes + structural zero pattern) run through the real module on symbolic "
             "entries and compared entry-wise, as exact polynomial identities, with the dense specification; "
             "distinct = distinct SHA-1 of the normal forms of all compared result entries; non-trivial = the "
             "specification has at least one non-zero entry",
        samples=samples,
        exhaustive=bool(spec.get("exhaustive")) and not res.get("error") and len(results) == res.get("n_cases"),
        exhaustively_enumerated=spec.get("exhaustively_enumerated", []),
        checker_cmd=f"./check {prop} --tier {tier}",
        trusted_base=spec["trusted"],
        entries_compared=sum(r["entries"] for r in results),     # matrix entries covered (sparse comparisons count the entries that are zero on both sides)
        cases_by_status={k: len(v) for k, v in by.items()},
        shim_ops_exercised=ops,
        negative_controls=ctrl,
        shim_selftest=selftest,
        shim_ops_not_covered_by_selftest=(sorted(set(ops) - set(selftest.get("ops_covered", []))) if selftest else None),
        repo_root=repo_root,
        driver_wall_s=res.get("wall_s"),
        unsupported_ops=sorted({r.get("op", "") for r in unsupported}),
        undecided_cases_probed_natively=probes,
        native_side_check=({k: v for k, v in side_rec.items() if k != "stdout"} | {"output_tail": side_rec["stdout"][-600:]}
                           if side_rec else None),
    )
    ev = dict(property_id=prop, tier=tier, seed=int(seed), level="other", coverage=cov,
              assumptions=spec["assumptions"], wall_s=round(time.time() - t0, 2), violations=len(violations))
    _evdir = os.environ.get("PYVC_EVIDENCE_DIR", os.path.join(VERIF, "evidence"))
    os.makedirs(_evdir, exist_ok=True)
    with open(os.path.join(_evdir, f"{prop}.json"), "w") as f:
        json.dump(ev, f, indent=1, default=str)

    # ---- verdict
    print(f"{prop}: {len(ok)}/{len(results)} bounded symbolic cases matched the dense specification "
          f"({cov['entries_compared']} entries, {len(digests)} distinct non-trivial), "
          f"controls caught {sum(c['outcome'] == 'caught' for c in ctrl)}/{len(ctrl)}, {ev['wall_s']} s  [BOUNDED: {spec['bounds']}]")
    for m in messages:
        print(m, file=sys.stderr)
    if res.get("error"):
        print(f"CHECKER-CRASH: driver error:\n{res['error']}", file=sys.stderr)
        rc = max(rc, 3)
    for r in crashes[:3]:
        print(f"CHECKER-CRASH in case {_clean(r['case'])}:\n{r.get('traceback')}", file=sys.stderr)
        rc = max(rc, 3)
    for r, path, reproduced in violations:
        what = (r["mismatches"][0] if r["status"] == "mismatch" else r["exception"]["type"] + ": " + r["exception"]["message"][:300])
        print(f"  mismatch in case {_clean(r['case'])}: {json.dumps(what)[:600]}")
        print(f"VIOLATION property={prop} replay={path}" + ("" if reproduced else " no-failing-input-found"))
    if violations:
        return 1
    if rc == 3:
        return 3
    if not results or len(results) < spec.get("min_cases", {}).get(tier, 1):
        print(f"CHECKER-CRASH: only {len(results)} cases were generated (vacuity guard)", file=sys.stderr)
        return 3
    if any(r["nonzero"] == 0 for r in ok):
        print("CHECKER-CRASH: a case compared only zero entries (vacuity guard)", file=sys.stderr)
        return 3
    for c in missed:
        print(f"CHECKER-CRASH: negative control '{c['name']}' was NOT caught", file=sys.stderr)
    if missed:
        return 3
    for c in cerr:
        print(f"CHECKER-CRASH: negative control '{c['name']}' could not be run: {c.get('why')}", file=sys.stderr)
    if cerr:
        return 3
    for r in unsupported[:5]:
        print(f"UNDECIDED case {_clean(r['case'])}: the shim does not model {r.get('op')}")
    for r, path in undecided_raised:
        print(f"UNDECIDED case {_clean(r['case'])}: the code raised {r['exception']['type']} under the shim but not "
              f"under real torch (shim/torch divergence, see {path})")
    if unsupported or undecided_raised:
        return 2
    for c in ctrl:
        if c["outcome"] == "timeout":
            print(f"NOTE: negative control '{c['name']}' did not finish in time: {c['why']}")
        if c["outcome"] == "not-applicable":
            # the source was edited where the control's text was: the control is skipped (recorded in the
            # evidence); the other vacuity guards (case count, non-zero entries, remaining controls) still hold
            print(f"NOTE: negative control '{c['name']}' no longer applies: {c['why']}")
    return 0
