"""C02 -- emu-mps reproduces the Pulser Hamiltonian dynamics: the data-flow clauses (which drive,
which coupling, which initial amplitude reaches which MPS site)."""
from contracts import frame_scan, mps_dataflow as D, mps_dataflow_sites as S, mps_stepping as ST

ID = "C02"
LEVEL = "proof"
REPLAY = "replay/c02.py"
# bounded complement to the proof (pyvc/runner.py _start_native_side_check): the native falsifier also runs when all
# obligations discharge -- floats are reals in the proofs (A1) and only the functions under contract are covered
NATIVE_SIDE_CHECK = {"quick": True, "thorough": True}



def extra_checks(tier, seed, repo_root):
    return frame_scan.run("C02", repo_root, attrs=("qubit_permutation", "pulser_data"))


def build(reg):
    D.register(reg, "C02")
    S.register(reg, "C02")
    stepping = ST.register(reg, "C02")
    M = D.IMPL
    return dict(
        targets=stepping + [f"{M}:MPSBackendImpl.__init__[drives]", f"{M}:MPSBackendImpl.__init__[drives,N=4]",
                 f"{M}:MPSBackendImpl._get_interaction_matrix[no filter]",
                 f"{M}:MPSBackendImpl.update_H", f"{M}:MPSBackendImpl.update_H_no_noise",
                 f"{M}:MPSBackendImpl.init_initial_state[given state]"],
        explanation=(
            "Ghost convention: MPS site k holds register atom perm[k].  Proved for all N, T, permutations: "
            "after __init__ the stored drives satisfy omega_site[t,k] == omega[t,perm[k]] (same for delta, phi); "
            "update_H / update_H_no_noise hand hamiltonian.update_H exactly row `_timestep_index` of the stored "
            "drives, hence omega[step, perm[k]] for site k; the matrix given to make_H is J(mid)[perm[i],perm[j]]; "
            "a user-supplied initial state is re-keyed so that site k carries the character of atom perm[k] with "
            "the same amplitude."),
        not_decided=[
            "numerical agreement with exact evolution / Pulser's reference emulator (precision, truncation, "
            "Krylov error): not a data-flow clause",
            "the TDVP sweep schedule (pair(k,k+1,dt/2), single(k+1,-dt/2), ...) and evolve_pair/evolve_single "
            "operators: not reached in this work package",
            "make_H / hamiltonian.update_H themselves (MPO == dense Hamiltonian is C05, bounded)",
            "the dark-qubit case of the drives is under C25 (init_dark_qubits)",
        ],
        trusted=[
            "between __init__/init_dark_qubits and update_H nobody rewrites self.omega/delta/phi or "
            "qubit_permutation (frame scan for qubit_permutation; omega/delta/phi are written only in __init__ and "
            "init_dark_qubits -- read off the source, both under contract)",
            "pulser State._to_abstract_repr()/from_state_amplitudes: a dict {'eigenstates', 'amplitudes': {string: "
            "amplitude}} and its inverse; one arbitrary entry is followed",
            "contracts of the permutation helpers and of minimize_bandwidth (verified under C32)",
            "the chain __init__ -> init_dark_qubits -> update_H is composed by matching clauses (the postcondition "
            "of one function is literally the precondition of the next, with site_atom = perm[full_site]); "
            "MPSBackendImpl.init() itself, which calls them in this order, is not under contract",
        ],
        bounded=["initial-state amplitudes: ONE arbitrary entry of the amplitudes dict (entries are mapped "
                 "independently by the dict comprehension); string length and N symbolic",
                 "[drives,N=4] repeats the drive clause at N = 4, T = 2 only to obtain a concrete counter-model "
                 "on a broken tree"],
    )
