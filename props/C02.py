"""C02 -- emu-mps reproduces the Pulser Hamiltonian dynamics: the data-flow clauses (which drive,
which coupling, which initial amplitude reaches which MPS site)."""
from contracts import mps_dataflow as D, mps_dataflow_sites as S

ID = "C02"
LEVEL = "proof"
REPLAY = "replay/c02.py"


def build(reg):
    D.register(reg, "C02")
    S.register(reg, "C02")
    M = D.IMPL
    return dict(
        targets=[f"{M}:MPSBackendImpl.__init__[drives]", f"{M}:MPSBackendImpl.__init__[drives,N=4]",
                 f"{M}:MPSBackendImpl._get_interaction_matrix[no filter]",
                 f"{M}:MPSBackendImpl.update_H", f"{M}:MPSBackendImpl.update_H_no_noise",
                 f"{M}:MPSBackendImpl.init_initial_state[given state]"],
        not_decided=[], trusted=[], bounded=[],
    )
