"""C24 -- Noise-model channels act on the intended atomic levels."""
from contracts import noise

ID = "C24"
LEVEL = "proof"
REPLAY = "replay/c24.py"
# bounded complement to the proof (pyvc/runner.py _start_native_side_check): the native falsifier also runs when all
# obligations discharge -- floats are reals in the proofs (A1) and only the functions under contract are covered
NATIVE_SIDE_CHECK = {"quick": True, "thorough": True}



def build(reg):
    targets = noise.register(reg, "C24")
    return dict(
        targets=targets,
        not_decided=[
            "relaxation with the XY interaction: pulser refuses it ('relaxation' noise requires addressing of "
            "the 'ground-rydberg' basis), so there is no Pulser definition to compare with; the emulator "
            "function does not refuse it",
            "how the backends *use* the jump operators (trajectories / Lindbladian assembly): C05, C06",
        ],
        trusted=[
            "pulser-core 1.9.1 HamiltonianData._build_local_collapse_operators restated in contracts/noise.py "
            "(the native replay calls the real pulser function instead)",
            "basis orders: pulser (r, g, x) / (u, d, x), emulators (g, r, x) / (u, d, x) -- read from the "
            "sources, see the docstring of contracts/noise.py",
            "math.sqrt is the exact square root (A1), torch element-wise semantics of zeros/setitem/flip/"
            "index/matmul/mH on concrete shapes (A3)",
        ],
        bounded=[
            f"number of effective-noise operators in a noise model: 0..{noise.MAX_EFF} (the function treats "
            "the operators independently in comprehensions; dim in {2, 3} is the whole domain)",
            f"compute_noise_from_lindbladians: list length 0..{noise.MAX_LIST} (sum over a python list is "
            "concrete iteration)",
        ],
        explanation="dim is concrete (2 and 3 = every dimension the emulators and pulser accept), every matrix "
                    "entry and rate is symbolic, so the per-shape results hold for all values.",
    )
