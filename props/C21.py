"""C21 -- the simulation time grid covers the sequence and every evaluation time."""
from contracts import timegrid

ID = "C21"
LEVEL = "proof"
REPLAY = "replay/c21.py"
# bounded complement to the proof (pyvc/runner.py _start_native_side_check): the native falsifier also runs when all
# obligations discharge -- floats are reals in the proofs (A1) and only the functions under contract are covered
NATIVE_SIDE_CHECK = {"quick": True, "thorough": True}



def extra_checks(tier, seed, repo_root):
    """bounded floating-point side obligations (concrete IEEE execution of the real source)"""
    from contracts import timegrid_fp
    return timegrid_fp.run("C21", tier, repo_root)


def build(reg):
    timegrid.register(reg, "C21")
    A = timegrid.ADAPTER
    return dict(
        targets=timegrid.target_time_keys("C21") + timegrid.extra_targets(reg, "C21"),
        lemmas=timegrid.LEMMAS,
        not_decided=timegrid.NOT_DECIDED_C21,
        trusted=timegrid.TRUSTED,
        bounded=timegrid.BOUNDED_C21,
        explanation=timegrid.EXPLANATION_C21,
    )
