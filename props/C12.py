"""C12 -- emu-sv state-vector / density-matrix / dense-operator objects vs their definitions.

Engine B (symtorch), BOUNDED, level "other".  Dense part only: SparseOperator needs torch's
sparse kernels, which the shim does not model -- stated, not claimed.
"""
from props import _engineb

ID = "C12"
LEVEL = "other"

BOUNDS = ("_from_state_amplitudes: every basis string for N = 1..4 with one amplitude, every ordered pair of "
          "distinct strings for N <= 3 (a sample of pairs at N = 4; all pairs in thorough), concrete Gaussian-rational "
          "amplitudes with rational norm; algebra (inner/norm/overlap/+/scalar*/from_state_vector/DensityMatrix.overlap/"
          "make/zero): symbolic vectors and matrices for N = 1..3 (thorough: 4); DenseOperator._from_operator_repr: "
          "N = 1..3, every way to give 1-2 operators disjoint target sets, 6 operator-name sets, 1-2 terms, symbolic "
          "coefficients; DenseOperator @, +, scalar*, apply_to, expect on symbolic 2^N x 2^N matrices")

CONTROLS = [
    dict(name="bitstring index with r=0, g=1", file="emu_sv/state_vector.py",
         old='state.replace(one, "1").replace("g", "0"), 2', new='state.replace(one, "0").replace("g", "1"), 2'),
    dict(name="inner product conjugates the wrong argument", file="emu_sv/state_vector.py",
         old="return torch.vdot(self.data, other.data.to(self.data.device)).cpu()",
         new="return torch.vdot(other.data.to(self.data.device), self.data).cpu()"),
    dict(name="overlap without the square", file="emu_sv/state_vector.py",
         old="return torch.abs(self.inner(other)) ** 2", new="return torch.abs(self.inner(other))"),
    dict(name="operator 'rg' defined as |g><r|", file="emu_sv/dense_operator.py",
         old='"rg": torch.tensor([[0.0, 0.0], [1.0, 0.0]], dtype=dtype),',
         new='"rg": torch.tensor([[0.0, 1.0], [0.0, 0.0]], dtype=dtype),'),
    dict(name="operator product in the wrong order", file="emu_sv/dense_operator.py",
         old="return DenseOperator(self.data @ other.data)", new="return DenseOperator(other.data @ self.data)"),
    dict(name="pure-state density matrix transposed", file="emu_sv/density_matrix_state.py",
         old="torch.outer(state.data, state.data.conj())", new="torch.outer(state.data.conj(), state.data)"),
]
QUICK_CONTROLS = ["bitstring index with r=0, g=1", "operator 'rg' defined as |g><r|"]

SPEC = dict(
    id=ID, bounds=BOUNDS,
    explanation=(
        "BOUNDED symbolic execution of the real modules (Engine B, /verif/symtorch). The unmodified "
        "emu_sv/state_vector.py (StateVector.__init__, zero, make, inner, norm, overlap, __add__, __rmul__, "
        "_from_state_amplitudes, _normalize, module-level inner), emu_sv/density_matrix_state.py (__init__, make, "
        "overlap, from_state_vector, _from_state_amplitudes) and emu_sv/dense_operator.py (__init__, __matmul__, "
        "__add__, __rmul__, apply_to, expect, _from_operator_repr) run on tensors with symbolic entries and are "
        "compared, as exact polynomial identities, with the dense linear-algebra definitions (Kronecker products in "
        "the ground-rydberg basis, g = 0, r = 1, atom 0 most significant; |a><b| for the operator name 'ab'). "
        "|z|^2 is read through root variables with r^2 = P. _from_state_amplitudes is run on CONCRETE amplitudes "
        "(its normalisation branches on a tolerance and divides by the norm): the finite family stated in the bounds "
        "is enumerated. Bounds: " + BOUNDS + ". NOT covered: SparseOperator and dense/sparse agreement (torch sparse "
        "kernels are outside the shim), sampling, N beyond the bounds (the property quantifies to 8 qubits), repeated "
        "targets inside one operator term (pulser's Operator._validate_operations rejects them: assumption A4), "
        "floating-point rounding."),
    controls=CONTROLS, quick_controls=QUICK_CONTROLS, exhaustive=False,
    min_cases=dict(quick=300, thorough=300),
    assumptions=[
        "A1: float64/complex128 arithmetic is read as exact arithmetic",
        "A3: torch op semantics as implemented in /verif/symtorch/torch (differential self-test in the thorough tier)",
        "A4: pulser rejects repeated targets within an operator term; pulser base classes State/Operator are inert here",
        "sqrt/abs/vector_norm are root variables with r^2 = P (sound for identities; P >= 0)",
        "gpu=False / no CUDA device: objects stay on the CPU",
    ],
    trusted=[
        "/verif/symtorch/poly.py normal form (incl. root variables)", "/verif/symtorch/torch shim",
        "/verif/symtorch/harness/symharness/{core,c12}.py (dense definitions, comparison)",
        "NumPy 2.x object-array semantics; CPython 3.11", "pulser is stubbed",
    ],
)


def build(reg):
    return {}


def run_custom(tier, seed, repo_root, relock=False):
    return _engineb.run(SPEC, tier, seed, repo_root)
