"""C12 -- emu-sv state-vector / density-matrix / dense- and sparse-operator objects vs their definitions.

Engine B (symtorch), BOUNDED, level "other".  SparseOperator runs on the shim's model of torch's sparse COO / CSR
tensors (/verif/symtorch/torch/_sparse.py): index lists, duplicates, the is_coalesced flag and the CSR row pointers
are kept as torch keeps them, so a result that is wrong only because of the stored layout is seen.
"""
from props import _engineb

ID = "C12"
LEVEL = "other"
REPLAY = "replay/engineb_beyond.py"      # ./check --replay of a side-check record (tools/replay_one.py)

BOUNDS = ("_from_state_amplitudes: every basis string for N = 1..4 with one amplitude, every ordered pair of "
          "distinct strings for N <= 3 (a sample of pairs at N = 4; all pairs in thorough), concrete Gaussian-rational "
          "amplitudes with rational norm; algebra (inner/norm/overlap/+/scalar*/from_state_vector/DensityMatrix.overlap/"
          "make/zero): symbolic vectors and matrices for N = 1..3 (thorough: 4); DenseOperator._from_operator_repr: "
          "N = 1..3, every way to give 1-2 operators disjoint target sets, 6 operator-name sets, 1-2 terms, symbolic "
          "coefficients; DenseOperator @, +, scalar*, apply_to, expect on symbolic 2^N x 2^N matrices; "
          "SparseOperator._from_operator_repr: N = 1..3 (a third of the N = 3 combinations in quick; thorough: all of "
          "them and a seventh of N = 4), every way to give 1-2 operators disjoint target sets (one operator on several "
          "targets included), 9 operator-name sets over gg/gr/rg/rr including factors with 2-4 entries and two entries "
          "in one row, 1, 2 and 3 terms, symbolic term coefficients and symbolic QuditOp coefficients, target lists and "
          "target sets, compared entry-wise with the Kronecker construction and with DenseOperator from the same "
          "representation, plus apply_to/expect of the built operator on a symbolic vector; SparseOperator +, scalar*, "
          "@, apply_to, expect, deepcopy: symbolic CSR matrices for N = 1..3 (thorough: 4) from 3 index patterns "
          "(full, scattered with duplicates in shuffled order, two rows in descending order)")

CONTROLS = [
    dict(name="bitstring index with r=0, g=1", file="emu_sv/state_vector.py",
         old='state.replace(one, "1").replace("g", "0"), 2', new='state.replace(one, "0").replace("g", "1"), 2'),
    dict(name="inner product conjugates the wrong argument", file="emu_sv/state_vector.py",
         old="return torch.vdot(self.data, other.data.to(self.data.device)).cpu()",
         new="return torch.vdot(other.data.to(self.data.device), self.data).cpu()"),
    dict(name="overlap without the square", file="emu_sv/state_vector.py",
         old="return torch.abs(self.inner(other)) ** 2", new="return torch.abs(self.inner(other))"),
    dict(name="operator 'rg' defined as |g><r|", file="emu_sv/dense_operator.py",
         old='"rg": torch.tensor([[0.0, 0.0], [1.0, 0.0]], dtype=dtype),',
         new='"rg": torch.tensor([[0.0, 1.0], [0.0, 0.0]], dtype=dtype),'),
    dict(name="operator product in the wrong order", file="emu_sv/dense_operator.py",
         old="return DenseOperator(self.data @ other.data)", new="return DenseOperator(other.data @ self.data)"),
    dict(name="pure-state density matrix transposed", file="emu_sv/density_matrix_state.py",
         old="torch.outer(state.data, state.data.conj())", new="torch.outer(state.data.conj(), state.data)"),
    # ---- emu_sv/sparse_operator.py
    dict(name="sparse: first term bypasses sparse_add (unsorted kron result flagged coalesced reaches to_sparse_csr)",
         file="emu_sv/sparse_operator.py",
         old="accum_res = sparse_add(accum_res, coeff * reduce(sparse_kron, single_qubit_gates))",
         new="accum_res = (lambda term: term if accum_res._nnz() == 0 else sparse_add(accum_res, term))"
             "(coeff * reduce(sparse_kron, single_qubit_gates))"),
    dict(name="sparse: sparse_kron with the index arithmetic of kron(b, a)", file="emu_sv/sparse_operator.py",
         old="torch.tensor(sb).reshape(2, 1, 1) * a.indices().reshape(2, -1, 1) + b.indices().reshape(2, 1, -1)",
         new="torch.tensor(sa).reshape(2, 1, 1) * b.indices().reshape(2, 1, -1) + a.indices().reshape(2, -1, 1)"),
    dict(name="sparse: term coefficient missing in the accumulation", file="emu_sv/sparse_operator.py",
         old="accum_res, coeff * reduce(sparse_kron, single_qubit_gates)",
         new="accum_res, reduce(sparse_kron, single_qubit_gates)"),
    dict(name="sparse: QuditOp coefficient dropped", file="emu_sv/sparse_operator.py",
         old="result += tensor * coeff", new="result += tensor"),
    dict(name="sparse: operator 'rg' defined as |g><r|", file="emu_sv/sparse_operator.py",
         old='"rg": torch.tensor([[0.0, 0.0], [1.0, 0.0]], dtype=dtype).to_sparse_coo(),',
         new='"rg": torch.tensor([[0.0, 1.0], [0.0, 0.0]], dtype=dtype).to_sparse_coo(),'),
    dict(name="sparse: __rmul__ ignores the scalar", file="emu_sv/sparse_operator.py",
         old="return SparseOperator(scalar * self.data)", new="return SparseOperator(self.data)"),
    dict(name="sparse: sparse_add keeps only the second operand's values", file="emu_sv/sparse_operator.py",
         old="torch.cat((self.values(), other.values())),", new="torch.cat((0 * self.values(), other.values())),"),
]
QUICK_CONTROLS = ["bitstring index with r=0, g=1", "operator 'rg' defined as |g><r|",
                  "sparse: first term bypasses sparse_add (unsorted kron result flagged coalesced reaches to_sparse_csr)"]

SPEC = dict(
    id=ID, bounds=BOUNDS,
    explanation=(
        "BOUNDED symbolic execution of the real modules (Engine B, /verif/symtorch). The unmodified "
        "emu_sv/state_vector.py (StateVector.__init__, zero, make, inner, norm, overlap, __add__, __rmul__, "
        "_from_state_amplitudes, _normalize, module-level inner), emu_sv/density_matrix_state.py (__init__, make, "
        "overlap, from_state_vector, _from_state_amplitudes), emu_sv/dense_operator.py (__init__, __matmul__, "
        "__add__, __rmul__, apply_to, expect, _from_operator_repr) and emu_sv/sparse_operator.py (sparse_add, "
        "sparse_kron, SparseOperator.__init__, __add__, __rmul__, __matmul__, apply_to, expect, _from_operator_repr, "
        "__deepcopy__) run on tensors with symbolic entries and are "
        "compared, as exact polynomial identities, with the dense linear-algebra definitions (Kronecker products in "
        "the ground-rydberg basis, g = 0, r = 1, atom 0 most significant; |a><b| for the operator name 'ab'). "
        "SparseOperator: the matrix stored in the CSR tensor (read out with to_dense()) is compared entry-wise with the "
        "independent Kronecker construction AND with DenseOperator built from the same representation (dense/sparse "
        "agreement); apply_to and expect of the built operator go through the CSR row pointers (csr @ vector); +, "
        "scalar*, apply_to, expect and deepcopy are compared with the dense definitions on symbolic CSR matrices; "
        "SparseOperator.__matmul__ raises NotImplementedError by design, which is recorded, not compared. "
        "Sparse layout, as modelled in /verif/symtorch/torch/_sparse.py (determined natively on torch 2.10 CPU and "
        "compared op by op with real torch in the shim self-test): a COO tensor keeps its index list as given "
        "(unsorted, duplicated) and its is_coalesced FLAG; sparse_coo_tensor sets the flag only for nnz < 2 or on "
        "request and does not validate indices; coalesce() returns self when the flag is set, else sorts "
        "lexicographically and sums duplicates; indices()/values() refuse unflagged tensors; to_dense() and sparse @ "
        "dense sum duplicates; scalar * sparse keeps indices and flag; sparse += sparse of truly coalesced operands is "
        "the sorted union with explicit zeros kept; to_sparse_csr() coalesces an unflagged tensor but TRUSTS the flag "
        "otherwise and compresses the row indices as stored with torch's sequential kernel, which is modelled "
        "literally -- for a tensor flagged coalesced whose rows are not sorted this yields the same wrong CSR matrix as "
        "torch does (entries in the wrong rows), so such a defect shows as a mismatch that the native replay "
        "reproduces; csr @ dense, csr.to_dense(), csr.to_sparse_coo(), scalar * csr, clone, to follow crow/col/values. "
        "Situations whose torch result is an implementation detail are UNDECIDED, not guessed (sparse add with an "
        "unflagged or falsely flagged operand, indices outside the size, CSR conversion of unsorted rows at or above "
        "the kernel's grain size of 32768 entries): they go to the native panel search. "
        "|z|^2 is read through root variables with r^2 = P. _from_state_amplitudes is run on CONCRETE amplitudes "
        "(its normalisation branches on a tolerance and divides by the norm): the finite family stated in the bounds "
        "is enumerated. Bounds: " + BOUNDS + ". NOT covered: sampling, N beyond the bounds (the property quantifies to "
        "8 qubits), repeated targets inside one operator term (pulser's Operator._validate_operations rejects them: "
        "assumption A4), operator names other than gg/gr/rg/rr (the code has no others), the {'0','1'} basis (the code "
        "raises NotImplementedError), COO matrices handed to SparseOperator (the class documents CSR), CUDA sparse "
        "kernels, floating-point rounding."),
    # bounded, sampled complement on real torch: the same harness cases at sizes beyond the symbolic bound, random values
    native_falsifier="replay/engineb_beyond.py",
    controls=CONTROLS, quick_controls=QUICK_CONTROLS, exhaustive=False,
    min_cases=dict(quick=500, thorough=900),
    assumptions=[
        "A1: float64/complex128 arithmetic is read as exact arithmetic",
        "A3: torch op semantics as implemented in /verif/symtorch/torch (differential self-test in the thorough tier)",
        "A3-sparse: torch 2.10 CPU sparse COO/CSR layout semantics as modelled in /verif/symtorch/torch/_sparse.py, incl. "
        "to_sparse_csr() trusting the is_coalesced flag (sequential row-compression kernel below 32768 entries); "
        "compared with real torch on sorted, unsorted-but-flagged and duplicated index lists in the self-test",
        "A4: pulser rejects repeated targets within an operator term; pulser base classes State/Operator are inert here",
        "sqrt/abs/vector_norm are root variables with r^2 = P (sound for identities; P >= 0)",
        "gpu=False / no CUDA device: objects stay on the CPU",
    ],
    trusted=[
        "/verif/symtorch/poly.py normal form (incl. root variables)", "/verif/symtorch/torch shim (incl. _sparse.py)",
        "/verif/symtorch/harness/symharness/{core,c12}.py (dense definitions, comparison)",
        "NumPy 2.x object-array semantics; CPython 3.11", "pulser is stubbed",
    ],
)


def build(reg):
    return {}


def run_custom(tier, seed, repo_root, relock=False):
    return _engineb.run(SPEC, tier, seed, repo_root)
