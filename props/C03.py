"""C03 -- results are independent of atom labelling and internal qubit reordering (the ordering /
data-flow clauses: which atom every reported entry belongs to)."""
from contracts import frame_scan, mps_dataflow as D, mps_dataflow_sites as S, mps_results as R

ID = "C03"
LEVEL = "proof"
REPLAY = "replay/c03.py"
# bounded complement to the proof (pyvc/runner.py _start_native_side_check): the native falsifier also runs when all
# obligations discharge -- floats are reals in the proofs (A1) and only the functions under contract are covered
NATIVE_SIDE_CHECK = {"quick": True, "thorough": True}



def extra_checks(tier, seed, repo_root):
    """syntactic frame of the ordering state (justifies the models of init()/_run())"""
    return frame_scan.run("C03", repo_root)


def build(reg):
    D.register(reg, "C03")
    S.register(reg, "C03")
    R.register(reg, "C03")
    M, B = D.IMPL, D.BACKEND
    return dict(
        targets=[f"{M}:MPSBackendImpl.__init__[order]", f"{M}:MPSBackendImpl.__init__[drives]",
                 f"{M}:MPSBackendImpl.__init__[drives,N=4]",
                 f"{M}:permute_bitstrings", f"{M}:permute_bitstrings[no bitstrings]",
                 f"{M}:permute_occupations_and_correlations", f"{M}:permute_atom_order",
                 f"{M}:MPSBackendImpl.permute_results", f"{M}:MPSBackendImpl.fill_results[no filter]",
                 f"{B}:MPSBackend._run_from_sequence_data", f"{B}:MPSBackend._run_from_sequence_data[N=4]",
                 f"{B}:MPSBackend.resume", f"{B}:MPSBackend.resume[N=4]",
                 # results stored under suffixed tags (Observable(tag_suffix=...))
                 f"{M}:permute_bitstrings[tag_suffix]", f"{M}:permute_occupations_and_correlations[tag_suffix]",
                 f"{M}:MPSBackendImpl.permute_results[tag_suffix]",
                 f"{B}:MPSBackend._run_from_sequence_data[tag_suffix]",
                 f"{B}:MPSBackend._run_from_sequence_data[tag_suffix,N=4]",
                 f"{B}:MPSBackend.resume[tag_suffix]", f"{B}:MPSBackend.resume[tag_suffix,N=4]"],
        explanation=(
            "Ghost convention: MPS site k holds register atom perm[k].  Proved (all register sizes N, all "
            "permutations): impl.results lists atoms in site order (atom_order[k] == qubit_ids[perm[k]]); perm is "
            "the identity when optimize_qubit_ordering is off; the drives stored per site are those of atom perm[k] "
            "(so that switching the optimisation on changes no reported value -- given C32's contract of the "
            "optimiser); permute_results(…, True) brings atom_order, bitstrings, occupations and correlation "
            "matrices back to register order (position perm[k] shows what site k held); a finished run AND a "
            "resumed run report register order."),
        not_decided=[
            "numerical agreement of the reported values with a reference propagator (only WHICH atom a value "
            "belongs to is decided here)",
            "invariance under relabelling the atoms of the register itself (Pulser's Register -> SequenceData "
            "conversion is outside emu-mps; C23/C34 cover the adapter)",
            "observables other than bitstrings / occupation / correlation_matrix: MPSConfig switches the "
            "optimisation off for them (C33, check_permutable_observables)",
            "results whose per-time entries were deserialised to nested python lists (torch.tensor(list) branch of "
            "permute_occupations_and_correlations): entries are modelled as tensors",
            "aggregation over several trajectories (Results.aggregate in MPSBackend.run)",
        ],
        trusted=[
            "frame of the unverified stepping code: MPSBackendImpl.init(), progress() and the callbacks do not "
            "write qubit_permutation / pulser_data / results.atom_order -- checked syntactically over every module of "
            "emu_mps by the frame scan (obligations frame-scan[emu_mps]/…), aliasing through other names is trusted",
            "create_impl returns an object built by MPSBackendImpl.__init__ (subclasses call super().__init__ "
            "first and do not touch the ordering fields: same frame scan)",
            "pickle.load(autosave) returns the impl object that was saved (C26/C27), i.e. one in site order",
            "pulser Results: atom_order / _results / get_result_tags / _find_uuid behave as a record and a dict",
            "contracts of the permutation helpers and of minimize_bandwidth (verified under C32)",
        ],
        bounded=["a Counter of bitstrings is represented by ONE arbitrary entry {string: count} (the code maps "
                 "the entries independently); number of evaluation times, atoms and string length are symbolic",
                 "[N=4] variants repeat a clause at N = 4 only to obtain concrete counter-models on a broken "
                 "tree; the proofs are the symbolic-N contracts",
                 "suffixed result tags (Observable(tag_suffix=...), stored under base_tag + '_' + suffix; "
                 "check_permutable_observables looks at the base tag, so they occur with the optimisation on): the "
                 "[tag_suffix] contracts use a Results model holding the three exact tags, one representative "
                 "suffixed tag per per-atom kind (bitstrings_z, occupation_x, correlation_matrix_y) and three tags "
                 "that are not per atom (energy, energy_x, energy_variance_corr: must stay the very same data); "
                 "suffix strings are concrete representatives, not symbolic.  A tag that merely starts with the "
                 "letters of a per-atom base tag without the underscore cannot occur while the optimisation is on "
                 "(base tags outside the whitelist switch it off, C33), so the underscore in the matching rule is "
                 "not observable and is not demanded"],
    )
