"""C03 -- results are independent of atom labelling and internal qubit reordering."""
from contracts import mps_dataflow as D, mps_dataflow_sites as S, mps_results as R

ID = "C03"
LEVEL = "proof"
REPLAY = "replay/c03.py"


def build(reg):
    D.register(reg, "C03")
    S.register(reg, "C03")
    R.register(reg, "C03")
    M, B = D.IMPL, D.BACKEND
    return dict(
        targets=[f"{M}:MPSBackendImpl.__init__[order]", f"{M}:MPSBackendImpl.__init__[drives]",
                 f"{M}:MPSBackendImpl.__init__[drives,N=4]",
                 f"{M}:permute_bitstrings", f"{M}:permute_bitstrings[no bitstrings]",
                 f"{M}:permute_occupations_and_correlations", f"{M}:permute_atom_order",
                 f"{M}:MPSBackendImpl.permute_results",
                 f"{B}:MPSBackend._run_from_sequence_data", f"{B}:MPSBackend._run_from_sequence_data[N=4]",
                 f"{B}:MPSBackend.resume", f"{B}:MPSBackend.resume[N=4]"],
        not_decided=[], trusted=[], bounded=[],
    )
