"""C08 -- Lanczos ground-state search meets its residual / reports honestly (flag clauses)."""
from contracts import krylov

ID = "C08"
LEVEL = "proof"
REPLAY = "replay/c08.py"
# bounded complement to the proof (pyvc/runner.py _start_native_side_check): the native falsifier also runs when all
# obligations discharge -- floats are reals in the proofs (A1) and only the functions under contract are covered
NATIVE_SIDE_CHECK = {"quick": True, "thorough": True}



def build(reg):
    targets = krylov.register_emin(reg, "C08")
    return dict(
        targets=targets,
        not_decided=[
            "energy equals the Rayleigh quotient of the returned vector -- floating-point numerical analysis",
            "variational bound: energy >= lowest eigenvalue (beyond rounding) -- numerical analysis",
            "that |beta_j * y_j| equals the true residual |H psi - E psi| (Saad, Prop. 6.8) -- exact-arithmetic "
            "Lanczos theory plus rounding; the clause proved is about the residual estimate the code computes",
            "the returned Ritz pair is the lowest one (eigh of the tridiagonal matrix is uninterpreted)",
        ],
        trusted=[
            "numerical kernels uninterpreted: op(x), norm (fresh real >= 0), vdot, eigh of the tridiagonal "
            "matrix, sums of scaled vectors",
            "A4: v / v.norm() has unit norm when v.norm() > 0 (the only fact used about vectors)",
            "+inf is an extended real larger than every real (torch.tensor(float('inf')))",
        ],
    )
