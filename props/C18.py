"""C18 -- quantum-jump stepping completes every time step once, in order (safety clauses)."""
from contracts import jumps

ID = "C18"
LEVEL = "proof"
REPLAY = "replay/c18.py"
# bounded complement to the proof (pyvc/runner.py _start_native_side_check): the native falsifier also runs when all
# obligations discharge -- floats are reals in the proofs (A1) and only the functions under contract are covered
NATIVE_SIDE_CHECK = {"quick": True, "thorough": True}



def build(reg):
    jumps.register(reg, "C18")
    M = jumps.IMPL
    return dict(
        targets=[f"{M}:NoisyMPSBackendImpl.sweep_complete[no search]", f"{M}:NoisyMPSBackendImpl.sweep_complete[search]",
                 f"{M}:NoisyMPSBackendImpl.set_jump_threshold"],
        not_decided=["termination of the whole run: an adversarial norm history can demand unboundedly many jumps inside "
                     "one nanosecond, and termination of Brent's iteration is open over the reals (C19)"],
        trusted=["BrentsRootFinder contracts (verified under C19)",
                 "MPSBackendImpl.timestep_complete records the observables for the current time, advances the index by one "
                 "and sets the next target time (verified under C14)",
                 "the norm of the state is a function of the state (two reads without an update in between agree)"],
    )


# negative controls (thorough tier): (name, file, old text, new text)
CONTROLS = [('jump with a 5 ns bracket',
  'emu_mps/mps_backend_impl.py',
  'if self.root_finder.is_converged(tolerance=1):',
  'if self.root_finder.is_converged(tolerance=5):'),
 ('small negative gaps ignored',
  'emu_mps/mps_backend_impl.py',
  '            if self.norm_gap_before_jump < 0:',
  '            if self.norm_gap_before_jump < -0.01:'),
 ('bracket starts at the sequence start',
  'emu_mps/mps_backend_impl.py',
  '                    start=previous_time,',
  '                    start=self.target_times[0],'),
 ('target not reset after a jump',
  'emu_mps/mps_backend_impl.py',
  '            self.do_random_quantum_jump()\n'
  '            self.target_time = self.target_times[self._timestep_index + 1]',
  '            self.do_random_quantum_jump()')]
