"""C18 -- quantum-jump stepping completes every time step once, in order (safety clauses)."""
from contracts import jumps

ID = "C18"
LEVEL = "proof"
REPLAY = "replay/c18.py"


def build(reg):
    jumps.register(reg, "C18")
    M = jumps.IMPL
    return dict(
        targets=[f"{M}:NoisyMPSBackendImpl.sweep_complete[no search]", f"{M}:NoisyMPSBackendImpl.sweep_complete[search]",
                 f"{M}:NoisyMPSBackendImpl.set_jump_threshold"],
        not_decided=["termination of the whole run: an adversarial norm history can demand unboundedly many jumps inside "
                     "one nanosecond, and termination of Brent's iteration is open over the reals (C19)"],
        trusted=["BrentsRootFinder contracts (verified under C19)",
                 "MPSBackendImpl.timestep_complete records the observables for the current time, advances the index by one "
                 "and sets the next target time (verified under C14)",
                 "the norm of the state is a function of the state (two reads without an update in between agree)"],
    )
