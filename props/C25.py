"""C25 -- badly prepared atoms behave as absent: the permutation / data-flow clauses of emu-mps."""
from contracts import mps_dataflow as D, mps_dataflow_sites as S

ID = "C25"
LEVEL = "proof"
REPLAY = "replay/c25.py"


def build(reg):
    D.register(reg, "C25")
    S.register(reg, "C25")
    M = D.IMPL
    return dict(
        targets=[f"{M}:MPSBackendImpl.init_dark_qubits", f"{M}:MPSBackendImpl.init_dark_qubits[N=4]",
                 f"{M}:MPSBackendImpl._get_interaction_matrix[filter]"],
        not_decided=[], trusted=[], bounded=[],
    )
