"""C25 -- badly prepared atoms behave as absent: the permutation / data-flow clauses of emu-mps
(which sites, drives and couplings the bad-atom filter removes)."""
from contracts import frame_scan, mps_dataflow as D, mps_dataflow_sites as S

ID = "C25"
LEVEL = "proof"
REPLAY = "replay/c25.py"


def extra_checks(tier, seed, repo_root):
    return frame_scan.run("C25", repo_root, attrs=("qubit_permutation", "pulser_data", "well_prepared_qubits_filter"))


def build(reg):
    D.register(reg, "C25")
    S.register(reg, "C25")
    M = D.IMPL
    return dict(
        targets=[f"{M}:MPSBackendImpl.init_dark_qubits", f"{M}:MPSBackendImpl.init_dark_qubits[N=4]",
                 f"{M}:MPSBackendImpl._get_interaction_matrix[filter]",
                 f"{M}:MPSBackendImpl.fill_results[filter]"],
        explanation=(
            "Ghost convention: MPS site k holds register atom perm[k]; the filter is one Boolean per SITE.  "
            "Proved for all N, T, permutations and bad-atom masks: filter_site[k] == well_prepared[perm[k]] "
            "(no filter without state-preparation error); qubit_count is the number of well-prepared atoms; "
            "the reduced drives are, in order, those of the surviving sites, i.e. of well-prepared atoms only, "
            "each with its own register drive; the reduced interaction matrix is J[atom(a), atom(b)] over the "
            "surviving sites; fill_results pads state and Hamiltonian with this very (per-site) filter."),
        not_decided=[
            "that the remaining atoms evolve numerically as in the sequence without the bad atoms (follows from the "
            "reduced drives/couplings proved here only modulo the propagator, C02)",
            "extended_mps_factors / extended_mpo_factors / get_extended_site_index themselves (|g> and identity "
            "factors exactly at the False positions, matching bond dimensions): not reached in this work package; "
            "fill_results is proved to hand them the per-site filter",
            "all-but-one bad atoms: MPS.make(1) raises ValueError although progress() has a one-qubit branch "
            "(DESIGN section 6, defect 7, second half) and all atoms bad: not a permutation clause, not covered here",
            "emu-sv init_dark_qubits (zeroed drive columns and interaction rows/columns): not covered here",
            "leakage (dim = 3): eigenstates are fixed to ['r', 'g'] in these contracts",
        ],
        trusted=[
            "torch semantics of a read through a 1-d boolean mask: gather through the increasing enumeration of the "
            "True positions (pyvc/maskidx.py, A3)",
            "well_prepared_qubits_filter is written only by init_dark_qubits (frame scan)",
            "the drives entering init_dark_qubits are in site order (C02: __init__[drives])",
        ],
        bounded=["fill_results: two observables, each due or not (4 cases)",
                 "init_dark_qubits[N=4] repeats the filter clause at N = 4 only to obtain a concrete counter-model "
                 "on a broken tree"],
    )
