"""C25 -- badly prepared atoms behave as absent, on both backends: which sites, drives and couplings the
bad-atom filter of emu-mps removes (permutation / data-flow clauses), the dark-site padding of the
reduced state and Hamiltonian for the observables (any physical dimension: leakage), the zeroing of
drives and couplings in emu-sv, and two clauses that fail on the pinned tree (open known findings
F24, F25)."""
from contracts import dark_padding as DP, frame_scan, mps_dataflow as D, mps_dataflow_sites as S, sv_dark as SV

ID = "C25"
LEVEL = "proof"
REPLAY = "replay/c25.py"
# bounded complement to the proof (pyvc/runner.py _start_native_side_check): the native falsifier also runs when all
# obligations discharge -- floats are reals in the proofs (A1) and only the functions under contract are covered
NATIVE_SIDE_CHECK = {"quick": True, "thorough": True}



def extra_checks(tier, seed, repo_root):
    return frame_scan.run("C25", repo_root, attrs=("qubit_permutation", "pulser_data", "well_prepared_qubits_filter"))


def build(reg):
    D.register(reg, "C25")
    S.register(reg, "C25")
    pad = DP.register(reg, "C25")
    sv = SV.register(reg, "C25")
    M = D.IMPL
    return dict(
        lemmas=DP.LEMMAS,
        targets=[f"{M}:MPSBackendImpl.init_dark_qubits", f"{M}:MPSBackendImpl.init_dark_qubits[N=4]",
                 f"{M}:MPSBackendImpl._get_interaction_matrix[filter]",
                 f"{M}:MPSBackendImpl.fill_results[filter]"] + pad + sv,
        explanation=(
            "emu-mps.  Ghost convention: MPS site k holds register atom perm[k]; the filter is one Boolean per SITE.  "
            "Proved for all N, T, permutations and bad-atom masks: filter_site[k] == well_prepared[perm[k]] "
            "(no filter without state-preparation error); qubit_count is the number of well-prepared atoms; "
            "the reduced drives are, in order, those of the surviving sites, i.e. of well-prepared atoms only, "
            "each with its own register drive; the reduced interaction matrix is J[atom(a), atom(b)] over the "
            "surviving sites; fill_results pads state and Hamiltonian with this very (per-site) filter.  "
            "Padding (contracts/dark_padding.py), for every number of sites, every mask and every physical dimension "
            "d (MPO: d = 2 and d = 3): extended_mps_factors / extended_mpo_factors return one factor per position; the "
            "k-th True position holds the k-th given factor itself; every False position holds a new factor of "
            "physical dimension d that is |0> (level index 0) (x) identity on the bond (MPO: identity on all d levels "
            "(x) identity on the bond); bond dimensions chain and both ends are 1; AssertionError exactly when the "
            "number of factors differs from the number of True entries, no IndexError.  get_extended_site_index "
            "returns the site with exactly `centre` well-prepared sites before it.  fill_results[padded state]: with a "
            "valid reduced state / Hamiltonian of physical dimension dim in {2, 3} every validity check of "
            "MPS.__init__ / MPO.__init__ holds for the padded lists (the AssertionError of the pinned tree with a "
            "leakage level), dark sites hold the ground state of the state's dimension, the centre is the site of the "
            "reduced centre.  MPS.make: ValueError exactly for fewer than 2 sites, else one |0> factor per site.  "
            "init_initial_state without a given state builds the ground state of the reduced chain and must not "
            "raise for any mask: fails exactly for fewer than 2 well-prepared atoms (open known finding F25).  "
            "emu-sv (contracts/sv_dark.py; its attribute `well_prepared_qubits_filter` holds the BAD mask): "
            "init_dark_qubits zeroes omega/delta/phi[:, b] at every step and row and column b of "
            "interaction_matrix(t) at every t for every bad atom b, every other entry is unchanged; one evolution "
            "step hands the stepper zero drives for a bad atom; `no jump operator acts on a bad atom` fails exactly "
            "when the sequence has Lindblad operators and the atom is bad (open known finding F24)."),
        not_decided=[
            "that the remaining atoms evolve numerically as in the sequence without the bad atoms (follows from the "
            "reduced drives/couplings proved here only modulo the propagator, C02); the native falsifier compares "
            "occupation, energy and correlation matrix of small runs (2 and 3 levels, ordering on/off, both backends)",
            "extended_mpo_factors for physical dimensions other than 2 and 3 (the loop over the levels is unrolled)",
            "emu-mps with a given initial state and state-preparation errors (NotImplementedError by design)",
            "emu-sv: that a density matrix / state vector built by make() starts every atom in |g> (C12) and that "
            "RydbergLindbladian / RydbergHamiltonian apply exactly the terms they are handed (C06)",
        ],
        trusted=[
            "torch semantics of a read through a 1-d boolean mask: gather through the increasing enumeration of the "
            "True positions (pyvc/maskidx.py, A3); torch.where(mask)[0] is that enumeration",
            "well_prepared_qubits_filter is written only by init_dark_qubits (frame scan, emu-mps); in emu-sv the drives, "
            "interaction_matrix and the filter are written only in __init__ and init_dark_qubits (read)",
            "the drives entering init_dark_qubits are in site order (C02: __init__[drives])",
            "the two counts of True entries used in the contracts agree: mask_count (init_dark_qubits/post#2) and "
            "true_before(filter, N) (padding); the induction principle behind lemma count_monotone",
            "fill_results[padded state] assumes the reduced state / Hamiltonian valid (chain, outer bonds 1, physical "
            "dimension dim, one factor per well-prepared site, >= 2 factors): MPS.make / make_H build them so and the "
            "evolution keeps shapes chained (C10); scalar * state keeps the factor shapes (C11)",
            "the validity checks of MPS.__init__ / MPO.__init__ are transcribed and bound by text (the model refuses if "
            "the constructors' asserts change)",
            "RydbergLindbladian applies every operator of the list it is given to every qubit (emu_sv/lindblad_operator.py "
            "h_eff / __matmul__, read): the number of jump operators on an atom is the length of the list handed to the stepper",
        ],
        bounded=["fill_results: two observables, each due or not (4 cases)",
                 "init_dark_qubits[N=4] repeats the filter clause at N = 4 only to obtain a concrete counter-model "
                 "on a broken tree",
                 "extended_mpo_factors: physical dimension 2 and 3 (all that emu-mps has); fill_results[padded state]: dim in {2, 3}"],
    )


# negative controls (thorough tier): (name, file, old text, new text)
CONTROLS = [
    ('padding: dark MPS sites get physical dimension 2 whatever the state (the pinned tree)',
     'emu_mps/utils.py', '    dim = mps_factors[0].shape[1] if len(mps_factors) > 0 else 2\n', '    dim = 2\n'),
    ('padding: dark MPS sites are put in level 1 instead of |0>',
     'emu_mps/utils.py', '            factor[:, 0, :] = torch.eye(bond_dimension, bond_dimension)',
     '            factor[:, 1, :] = torch.eye(bond_dimension, bond_dimension)'),
    ('padding: the bond dimension is not carried over a well-prepared site',
     'emu_mps/utils.py', '            bond_dimension = mps_factors[factor_index].shape[2]\n',
     '            bond_dimension = mps_factors[factor_index].shape[0]\n'),
    ('padding: the identity MPO factor misses the last level',
     'emu_mps/utils.py',
     '            for level in range(dim):\n                factor[:, level, level, :] = torch.eye(bond_dimension, bond_dimension)',
     '            for level in range(dim - 1):\n                factor[:, level, level, :] = torch.eye(bond_dimension, bond_dimension)'),
    ('padding: the padded state is built from the unpadded factors',
     'emu_mps/mps_backend_impl.py',
     '                extended_mps_factors(\n                    normalized_state.factors,\n'
     '                    self.well_prepared_qubits_filter,\n                ),',
     '                normalized_state.factors,'),
    ('padded centre: the reduced centre index is used as it is',
     'emu_mps/mps_backend_impl.py',
     '                orthogonality_center=get_extended_site_index(\n                    self.well_prepared_qubits_filter,\n'
     '                    normalized_state.orthogonality_center,\n                ),',
     '                orthogonality_center=normalized_state.orthogonality_center,'),
    ('emu-sv: the columns of the interaction matrix of a bad atom are kept',
     'emu_sv/sv_backend_impl.py', '                mat[:, indices] = 0.0\n', ''),
    ('emu-sv: the phase of a bad atom is kept',
     'emu_sv/sv_backend_impl.py', '            self.phi[:, self.well_prepared_qubits_filter] = 0.0\n', ''),
    ('emu-sv: the drives of the GOOD atoms are zeroed',
     'emu_sv/sv_backend_impl.py', '            self.omega[:, self.well_prepared_qubits_filter] = 0.0',
     '            self.omega[:, ~self.well_prepared_qubits_filter] = 0.0'),
    ('MPS.make refuses two sites',
     'emu_mps/mps.py', '        if num_sites <= 1:\n            raise ValueError("For 1 qubit states, do state vector")',
     '        if num_sites <= 2:\n            raise ValueError("For 1 qubit states, do state vector")'),
]
