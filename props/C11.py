"""C11 -- MPS / MPO operations vs their dense counterparts: the QR/SVD/eigh-free subset.

Engine B (symtorch), BOUNDED, level "other".  The real emu_mps/algebra.py, mps.py, mpo.py run on
matrix-product factors with complex symbolic entries (2-5 sites, inner bond dimensions 1-3(4),
physical dimension 2 and 3, the three eigenstate bases); the results are contracted by the
checker and compared with the dense vectors / matrices as exact polynomial identities.
Everything that goes through torch.linalg.qr / eigh / svdvals (truncation, orthogonalisation,
zip-up, entropy, sampling) is outside exact polynomial reasoning: NOT covered, stated, never
generated as a case.
"""
import os
import sys

from props import _engineb

ID = "C11"
LEVEL = "other"
REPLAY = "replay/c11_native.py"      # ./check --replay of a side-check record (tools/replay_one.py)

sys.path.insert(0, os.path.join(_engineb.HARNESS))
from symharness import c11 as _plan          # noqa: E402  (NumPy only; the shim is not imported here)

BOUNDS_BY_TIER = {t: _plan.plan_description(t) for t in ("quick", "thorough")}

MPS, MPO, ALG, UTL = "emu_mps/mps.py", "emu_mps/mpo.py", "emu_mps/algebra.py", "emu_mps/utils.py"
CONTROLS = [
    dict(name="inner: the left state is not conjugated", file=MPS,
         old="acc = torch.tensordot(self.factors[i].conj(), acc, dims=([0, 1], [0, 1]))",
         new="acc = torch.tensordot(self.factors[i], acc, dims=([0, 1], [0, 1]))"),
    dict(name="add_factors: middle blocks placed on the anti-diagonal", file=ALG,
         old="                (padded_c1, padded_c2), dim=-1", new="                (padded_c2, padded_c1), dim=-1"),
    dict(name="scale_factors: the scalar is applied to two factors", file=ALG,
         old="return [scalar * f if i == which else f for i, f in enumerate(factors)]",
         new="return [scalar * f if i in (which, which + 1) else f for i, f in enumerate(factors)]"),
    dict(name="MPO.expect: operator contracted with its in/out indices exchanged", file=UTL,
         old="bath = torch.tensordot(bath, op.to(bath.device), ([0, 2], [0, 1]))",
         new="bath = torch.tensordot(bath, op.to(bath.device), ([0, 2], [0, 2]))"),
    dict(name="operator 'rg' defined as |g><r|", file=MPO,
         old='"rg": torch.tensor([[0.0, 0.0], [1.0, 0.0]], dtype=dtype).view(',
         new='"rg": torch.tensor([[0.0, 1.0], [0.0, 0.0]], dtype=dtype).view('),
    dict(name="_from_operator_repr: qubit order reversed", file=MPO,
         old="factors[target_qubit] = factor", new="factors[-1 - target_qubit] = factor"),
    dict(name="MPS.apply: transposed single-qubit operator", file=MPS,
         old="single_qubit_operator.to(self.factors[qubit_index].device)",
         new="single_qubit_operator.mT.to(self.factors[qubit_index].device)"),
    dict(name="MPS.norm reads the first factor instead of the orthogonality centre", file=MPS,
         old="return self.factors[orthogonality_center].norm().cpu()", new="return self.factors[0].norm().cpu()"),
]
QUICK_CONTROLS = ["inner: the left state is not conjugated", "add_factors: middle blocks placed on the anti-diagonal"]

COVERED = (
    "algebra.add_factors (rank-3 MPS and rank-4 MPO trains, incl. the one-tensor-at-every-site lists built by "
    "_from_state_amplitudes / _from_operator_repr), algebra.scale_factors, MPO.__init__, MPO.__add__, MPO.__rmul__, "
    "MPO.expect (emu_mps/utils.py:new_left_bath), MPO._from_operator_repr (all three eigenstate bases, symbolic term and "
    "sub-operator coefficients, list and set targets, empty tensor-operator terms), MPS.__init__ (incl. assign_devices with "
    "no GPU), MPS.make, MPS.inner, mps.inner, MPS.overlap, MPS.__rmul__ (Python scalar), MPS.__imul__ (0-d tensor scalar), "
    "MPS.apply when the orthogonality centre is already on the target site (orthogonalize is then an empty loop), "
    "MPS.norm on an MPS that really is canonical (exact Gaussian-rational isometries from Householder reflections around a "
    "symbolic centre factor), n_qudits, get_max_bond_dim")
NOT_COVERED = (
    "NOT covered, because the code reaches torch.linalg.qr / eigh / svdvals / multinomial / special.entr, which exact "
    "polynomial reasoning cannot follow (such cases are not generated; the clause 'to within the truncation precision' is "
    "therefore not decided at all): MPS.orthogonalize, MPS.truncate, MPS.__add__ beyond its add_factors stage, "
    "MPS._from_state_amplitudes (its first `accum_mps += ...` already truncates; only its building blocks "
    "scalar * MPS and add_factors are covered), MPS.norm / MPS.apply when the centre has to be moved, MPS.expect_batch and "
    "MPS.get_correlation_matrix in every configuration (QR sweep / orthogonalize for any num_sites >= 2; on a symbolic, "
    "non-canonical MPS they also have no dense counterpart because they rely on the canonical form being true), "
    "MPS.entanglement_entropy, MPS.sample, MPO.apply_to, MPO.__matmul__ (algebra.zip_right / zip_right_step contract and "
    "QR-factorise inside one function), utils.truncate_impl / split_matrix. Also not covered: more than 5 sites, inner bond "
    "dimensions above 3 (4 for norm in thorough) -- the property quantifies to 8 sites and bond dimension 16 --, GPU "
    "placement, floating-point rounding")


def spec(tier):
    BOUNDS = BOUNDS_BY_TIER[tier]
    return dict(
        id=ID, bounds=BOUNDS,
        explanation=(
            "BOUNDED symbolic execution of the real modules (Engine B, /verif/symtorch) for the QR/SVD/eigh-free subset of "
            "C11. The unmodified emu_mps/algebra.py, emu_mps/mps.py, emu_mps/mpo.py (and utils.new_left_bath / "
            "assign_devices) are imported from the checked tree and run on matrix-product factors whose entries are "
            "complex symbols re + i*im (every entry symbolic where the size allows; in the larger configurations 1-3 "
            "seeded entries per factor are symbolic and the others are concrete Gaussian dyadic rationals, zeros included). "
            "The bond-dimension profile is enumerated (each inner bond 1..3 independently). The factors returned by the "
            "code are contracted to a dense vector (site 0 most significant, level g=0='0', r=1='1', x=2) or matrix (MPO "
            "axes left, out, in, right) by explicit index loops on the checker side and compared, entry by entry and as "
            "exact polynomial identities, with the same operation done on the dense vectors / matrices of the operands: "
            "sum, scalar multiple, <a|b> = sum conj(a_i) b_i (anti-linear in self), |<a|b>|^2, <psi|A|psi>, "
            "(1 x ... x op_q x ... x 1)|psi>, sum_t c_t kron_q (sum_ab o_ab |a><b|) for the abstract operator "
            "representation, e_0 for make, ||psi||^2. Covered: " + COVERED + ". The 'not in-place' clause is checked for "
            "each covered operation: after it the operands' factors (and the operator / the operations structure) are "
            "entry-wise identical to their snapshots, the result is a new object with a new factor list, and a zero_() "
            "written into the result factors the code creates afresh (torch.cat results, scalar * f) does not reach the "
            "operands; MPS.apply on a scaled copy leaves the original unchanged. Observed and documented sharing that is "
            "NOT a violation: scale_factors / MPS.__rmul__ / MPO.__rmul__ return a new list whose unscaled entries are the "
            "operand's tensor objects ('Returns a new list of factors where the tensor at the given index is scaled'; the "
            "MPS constructor documents that factors are not deep-copied), and a single-term _from_operator_repr result "
            "holds one tensor object at several sites; every in-place MPS operation of the package (apply, orthogonalize, "
            "truncate) rebinds list entries instead of writing into tensors, so this sharing does not propagate between "
            "states; the only tensor-level writes into matrix-product factors in emu_mps are hamiltonian.update_H on the "
            "Hamiltonian MPO (C05) -- calling it on a scaled copy z * H would also change the unscaled factors of H, "
            "which the package never does. " + NOT_COVERED + ". Bounds of this "
            "run: " + BOUNDS + "."),
        controls=CONTROLS, quick_controls=QUICK_CONTROLS, exhaustive=False,
        # bounded, sampled complement on real torch for everything that goes through QR / SVD (NOT_COVERED above):
        # replay/c11_native.py compares orthogonalize, truncate, norm/apply/expect_batch/correlations from every
        # orthogonality centre, entropy, +, MPO.apply_to, MPO @ MPO, MPO.expect with dense linear algebra
        native_falsifier="replay/c11_native.py",
        min_cases=dict(quick=MIN_CASES["quick"], thorough=MIN_CASES["thorough"]),
        assumptions=[
            "A1: complex128 arithmetic is read as exact complex arithmetic (rounding is not modelled; the tolerance "
            "'within the truncation precision' plays no role because no truncating operation is covered)",
            "A3: each torch operation used by the checked functions (tensordot, cat, matmul broadcasting, conj, view, "
            "vector_norm, abs, zero_) has the element-wise meaning implemented in /verif/symtorch/torch; cross-checked op "
            "by op against real torch 2.10 in the thorough tier",
            "A4: pulser validates operator representations (disjoint targets, two-letter names over the eigenstates) before "
            "_from_operator_repr is reached; pulser base classes State / Operator are inert stubs in the symbolic run and "
            "the real classes in native replays",
            "sqrt/abs/vector_norm are root variables with r^2 = P (sound for identities; P >= 0)",
            "no CUDA device (DEVICE_COUNT = 0): all factors stay on the CPU",
            "MPS.norm is only claimed for an MPS whose stated orthogonality centre is a true one (isometric neighbours)",
        ],
        trusted=[
            "/verif/symtorch/poly.py: polynomial normal form over Q[i] (incl. root variables) is canonical",
            "/verif/symtorch/torch: NumPy-backed model of the torch subset",
            "/verif/symtorch/harness/symharness/{core,c11}.py: checker-side contraction, dense definitions, exact "
            "isometries, comparison",
            "NumPy 2.x object-array semantics; CPython 3.11",
            "pulser is stubbed in the symbolic run",
        ],
    )


MIN_CASES = dict(quick=1200, thorough=4000)


def build(reg):
    return {}


def run_custom(tier, seed, repo_root, relock=False):
    return _engineb.run(spec(tier), tier, seed, repo_root)
