"""C07 -- Krylov exponentiation is honest about convergence (flag clauses; accuracy not decided)."""
from contracts import krylov

ID = "C07"
LEVEL = "proof"
REPLAY = "replay/c07.py"
# bounded complement to the proof (pyvc/runner.py _start_native_side_check): the native falsifier also runs when all
# obligations discharge -- floats are reals in the proofs (A1) and only the functions under contract are covered
NATIVE_SIDE_CHECK = {"quick": True, "thorough": True}



def build(reg):
    targets = krylov.register_exp(reg, "C07")
    return dict(
        targets=targets,
        not_decided=[
            "accuracy: |result - exp(A)v| <= 10*tol*|v| whenever converged is reported (Hermitian-proportional "
            "and general operators) -- floating-point numerical analysis of Lanczos/Arnoldi and of the "
            "extended-T error estimate; no contract an SMT solver can discharge",
            "that the error estimate `err` of the extended T matrix bounds the true error",
            "max_krylov_dim = 0 (outside the property's range 1..100): `expd` is unbound after the loop "
            "(UnboundLocalError); stated as `requires max_krylov_dim >= 1`",
        ],
        trusted=[
            "numerical kernels uninterpreted: op(x), norm (fresh real >= 0), tensordot, matrix_exp, sums of "
            "scaled vectors; tensor arithmetic on 0-d tensors never raises (x/0 is an unconstrained value)",
            "the clauses about n2 / err / j read the code's locals of those names at the returning iteration",
        ],
    )
