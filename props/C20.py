"""C20 -- PCHIP interpolation is exact at knots, C1 and shape-preserving (= standard PCHIP)."""
from contracts import pchip

ID = "C20"
LEVEL = "proof"
REPLAY = "replay/c20.py"


def build(reg):
    pchip.register(reg, "C20")
    M = pchip.MOD
    return dict(
        targets=[f"{M}:_pchip_derivatives", f"{M}:_polynomial_coeffs", f"{M}:PCHIP1D.__init__",
                 f"{M}:PCHIP1D.__call__"],
        lemmas=pchip.LEMMAS,
        not_decided=[],
        trusted=["torch.searchsorted returns the insertion index of a sorted sequence (A4)",
                 "element-wise torch semantics of the tensor subset used (A3); floats as reals (A1)"],
    )
