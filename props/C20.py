"""C20 -- PCHIP interpolation is exact at knots, C1 and shape-preserving (= standard PCHIP)."""
from contracts import pchip

ID = "C20"
LEVEL = "proof"
REPLAY = "replay/c20.py"
# bounded complement to the proof (pyvc/runner.py _start_native_side_check): the native falsifier also runs when all
# obligations discharge -- floats are reals in the proofs (A1) and only the functions under contract are covered
NATIVE_SIDE_CHECK = {"quick": True, "thorough": True}



def extra_checks(tier, seed, repo_root):
    """bounded floating-point side obligations (native execution of the real module at extreme scales)"""
    from contracts import pchip_fp
    return pchip_fp.run("C20", tier, repo_root)


def build(reg):
    pchip.register(reg, "C20")
    M = pchip.MOD
    return dict(
        targets=[f"{M}:_pchip_derivatives", f"{M}:_polynomial_coeffs", f"{M}:PCHIP1D.__init__",
                 f"{M}:PCHIP1D.__call__"],
        lemmas=pchip.LEMMAS,
        not_decided=[],
        bounded=["PCHIP1D[float]/fp/*: the proof is over the reals (A1); a rewrite that is an identity there can over- or "
                 "underflow in floats. The real module is run natively on 5 data sets scaled by powers of two across the "
                 "exponent range (float64: 2**-520 .. 2**520, float32: 2**-70 .. 2**70; 80 runs, more in the thorough "
                 "tier) and must stay finite, homogeneous (P[c y]/c == P[y]) and reproduce the knots. Bounded: labelled "
                 "bounded-float in the evidence, never counted as proved"],
        trusted=["torch.searchsorted returns the insertion index of a sorted sequence (A4)",
                 "element-wise torch semantics of the tensor subset used (A3); floats as reals (A1)"],
    )


# negative controls (thorough tier): (name, file, old text, new text)
CONTROLS = [('swap the harmonic-mean weights',
  'emu_base/math/pchip_torch.py',
  'w_l = h_l + 2.0 * h_r',
  'w_l = 2.0 * h_l + h_r'),
 ('sign error in the quadratic coefficient',
  'emu_base/math/pchip_torch.py',
  'p2 = (3.0 * delta - 2.0 * d[:-1] - d[1:]) / h',
  'p2 = (3.0 * delta - 2.0 * d[:-1] + d[1:]) / h'),
 ('clamp the interval index one too far',
  'emu_base/math/pchip_torch.py',
  'return i.clamp(0, self.x.numel() - 2)',
  'return i.clamp(0, self.x.numel() - 1)'),
 ('strict end-slope limiter (the repaired defect)',
  'emu_base/math/pchip_torch.py',
  'mask_sign_change = ((d_end <= 0) | (s_l <= 0)) & ((d_end >= 0) | (s_l >= 0))',
  'mask_sign_change = ((d_end < 0) | (s_l < 0)) & ((d_end > 0) | (s_l > 0))'),
 ('same-sign test by a product that underflows (the repaired defect)',
  'emu_base/math/pchip_torch.py',
  'mask_same_sign = ((delta_l > 0) & (delta_r > 0)) | ((delta_l < 0) & (delta_r < 0))',
  'mask_same_sign = (delta_l * delta_r) > 0')]
