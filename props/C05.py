"""C05 -- the MPO Hamiltonian equals the dense neutral-atom Hamiltonian.

Engine B (symtorch): the real emu_mps/hamiltonian.py (make_H, update_H, both factor classes)
and emu_mps/mpo.py:MPO.__init__ run on a symbolic interaction matrix for EVERY sparsity
pattern at small N (complete enumeration up to N = 5 in quick, N = 6 in thorough, samples up
to N = 7), Rydberg and XY, dim 2 and 3; the factors are
contracted to a dense operator by the checker and compared with the dense Hamiltonian.
BOUNDED in the number of atoms -- level "other", never "proof".
"""
from props import _engineb

ID = "C05"
LEVEL = "other"
REPLAY = "replay/engineb_beyond.py"      # ./check --replay of a side-check record (tools/replay_one.py)

import os
import sys

sys.path.insert(0, os.path.join(_engineb.HARNESS))
from symharness import c05 as _plan          # noqa: E402  (NumPy only; the shim is not imported here)

BOUNDS_BY_TIER = {t: _plan.plan_description(t) for t in ("quick", "thorough")}

H = "emu_mps/hamiltonian.py"
CONTROLS = [
    dict(name="left channel considered closed one site too early",
         file=H, old="current_left_interactions = self.interaction_matrix[:site, site:].any(dim=1)",
         new="current_left_interactions = self.interaction_matrix[:site, site + 1 :].any(dim=1)"),
    dict(name="update_H: sign of the sigma_y term",
         file=H, old="single_qubit_terms[:, :2, :2] += a + b - c", new="single_qubit_terms[:, :2, :2] += a - b - c"),
    dict(name="update_H: every site gets the terms of site 0",
         file=H, old="factors[i][1, :, :, 0] = single_qubit_terms[i]", new="factors[i][1, :, :, 0] = single_qubit_terms[0]"),
    dict(name="XY two-site chain: missing factor 2",
         file=H, old="coeff = 2 * self.interaction_matrix[0, 1] if self.num_sites == 2 else 1",
         new="coeff = self.interaction_matrix[0, 1] if self.num_sites == 2 else 1"),
    dict(name="Rydberg right factor: pass-through channel starts at the wrong row",
         file=H, old="i = 3 if has_left_interaction else 2", new="i = 2"),
    dict(name="Rydberg middle factor: left-right couplings dropped",
         file=H, old="factor[2:, :, :, 2:] = coeff * self.identity[None, ..., None]",
         new="factor[2:, :, :, 2:] = 0 * coeff * self.identity[None, ..., None]"),
]
QUICK_CONTROLS = ["update_H: sign of the sigma_y term", "Rydberg right factor: pass-through channel starts at the wrong row"]



def spec(tier):
    BOUNDS = BOUNDS_BY_TIER[tier]
    return dict(
    id=ID,
    bounds=BOUNDS,
    explanation=(
        "BOUNDED symbolic execution of the real modules (Engine B, /verif/symtorch). The unmodified make_H "
        "(RydbergHamiltonianMPOFactors / XYHamiltonianMPOFactors, MPO.__init__) and update_H are imported from the "
        "checked tree and run on an interaction matrix whose entries are either the literal 0 or a symbol declared "
        "non-zero (so every data-dependent branch -- .any(), .nonzero(), mask sums -- is decided by the pattern), for "
        "EVERY sparsity pattern of the symmetric matrix at the stated N. After make_H, after update_H with symbolic "
        "Omega_j, delta_j, cos/sin(phi_j) and a symbolic complex dim x dim noise term, and after a second in-place "
        "update_H with fresh symbols (and some phases literally 0), the MPO factors are contracted to a dense "
        "operator by the checker (sparse contraction, independent of the shim) and every entry is compared as an "
        "exact polynomial identity with the dense Rydberg / XY Hamiltonian in Pulser's convention (the one of "
        "test/emu_mps/test_hamiltonian.py: sv_hamiltonian). The identity therefore holds for ALL interaction values "
        "(any sign), drives and noise terms at each explored pattern. Bounds of this run: " + BOUNDS + ". Where the "
        "plan says 'all', the pattern space at that (N, dim) is enumerated completely; the other entries are "
        "hand-picked structured families (chains, stars, blocks, single/missing pairs) plus seeded random patterns. "
        "Note that right_factor is only reached for N >= 5 and factor-to-factor pass-through chains for N >= 6/7, "
        "which is why those sizes are included. NOT covered: N >= 8, patterns not enumerated/sampled at N = 6, 7, "
        "floating-point rounding, GPU placement (num_gpus_to_use = 0), MPO algebra other than the constructor."),
    # bounded, sampled complement on real torch: the same harness cases at sizes beyond the symbolic bound, random values
    native_falsifier="replay/engineb_beyond.py",
    controls=CONTROLS,
    quick_controls=QUICK_CONTROLS,
    exhaustive=False,        # mixed plan: complete enumeration at small N, samples at N = 6, 7 (see bounds)
    exhaustively_enumerated=[f"N={N} dim={d}" for (N, d), how in sorted(_plan.PLAN[tier].items()) if how == "all"],
    min_cases=dict(quick=3000, thorough=76000),
    assumptions=[
        "A1: float64/complex128 arithmetic is read as exact real/complex arithmetic (rounding is not modelled)",
        "A3: each torch operation used by the checked functions has the element-wise meaning implemented in "
        "/verif/symtorch/torch (NumPy object arrays, NumPy advanced-indexing rules); cross-checked op by op against "
        "real torch 2.10 in the thorough tier",
        "an interaction entry is either exactly 0 or non-zero; a non-zero entry is truthy whatever its sign",
        "interaction matrix symmetric with zero diagonal (A4: what pulser supplies); drives are real values in "
        "complex128 tensors as MPSBackendImpl passes them",
        "complete enumeration refers to the sparsity patterns at the (N, dim) marked 'all' -- never to N",
    ],
    trusted=[
        "/verif/symtorch/poly.py: polynomial normal form over Q[i] modulo c^2+s^2=1 is canonical",
        "/verif/symtorch/torch: NumPy-backed model of the torch subset",
        "/verif/symtorch/harness/symharness/{core,c05}.py: MPO contraction, dense specification (self-checked against "
        "literal Kronecker products for N <= 3), comparison",
        "NumPy 2.x object-array semantics; CPython 3.11",
        "pulser is stubbed (never reached by the checked functions)",
    ],
    )


def build(reg):
    return {}


def run_custom(tier, seed, repo_root, relock=False):
    return _engineb.run(spec(tier), tier, seed, repo_root)
