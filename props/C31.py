"""C31 -- every pulser-core version the package accepts can run the emulators.

Technique (DESIGN.md 2.3): interface conformance = caller checked against the callee's
contract, the callee contract being extracted mechanically (inspect.signature / run-time
shape contracts) from each pulser-core distribution that is available offline and satisfies
the specifier declared in pyproject.toml.  The work is done by /verif/conform under
/venv/bin/python (it has to import pulser and torch); this module spawns it, classifies
the obligations, writes replays and evidence and maps the outcome to the exit codes
0 held | 1 violation | 2 undecided | 3 checker crash.
"""
from __future__ import annotations

import json
import os
import re
import subprocess
import sys
import time

ID = "C31"
LEVEL = "other"

VERIF = os.path.dirname(os.path.dirname(os.path.abspath(__file__)))
NATIVE_PY = "/venv/bin/python"
KNOWN = os.path.join(VERIF, "known_findings.json")
LOCK = os.path.join(VERIF, "obligations.lock.json")
TIMEOUT_S = {"quick": 900, "thorough": 3000}


def build(reg):
    return {}


def _load_known():
    if not os.path.exists(KNOWN):
        return {}
    out = {}
    with open(KNOWN) as f:
        for k in json.load(f).get("findings", []):
            if k.get("property") == ID and k.get("status") == "open":
                # exact obligation name(s); "obligations" (a list) is accepted next to "obligation"
                for name in [k.get("obligation")] + list(k.get("obligations", [])):
                    if name:
                        out[name] = k
    return out


def _spawn(tier, seed, repo_root):
    env = dict(os.environ)
    env["PYTHONPATH"] = os.pathsep.join([repo_root, VERIF])       # repo first: emu_* come from repo_root
    env["PYTHONHASHSEED"] = "0"
    env.setdefault("CUDA_VISIBLE_DEVICES", "")
    cmd = [NATIVE_PY, "-m", "conform", "--repo", repo_root, "--tier", tier, "--seed", str(seed)]
    p = subprocess.run(cmd, capture_output=True, text=True, env=env, cwd=repo_root, timeout=TIMEOUT_S[tier])
    line = [ln for ln in p.stdout.splitlines() if ln.startswith("CONFORM-JSON:")]
    if not line:
        return None, f"conform produced no report (exit {p.returncode})\n{p.stderr[-3000:]}", " ".join(cmd)
    return json.loads(line[-1][len("CONFORM-JSON:"):]), None, " ".join(cmd)


def _obligations(ver):
    """Flatten one version's report into obligation records."""
    out = []
    for s in ver.get("static", {}).get("sites", []):
        out.append({"obligation": s["obligation"], "kind": s["kind"], "status": s["status"],
                    "site": f"{s['file']}:{s['line']}", "scope": s["scope"], "expr": s["expr"],
                    "callee": s["callee"], "signature": s["signature"], "args": s["args"],
                    "detail": s["detail"], "bounded": False})
    for o in ver.get("smoke", {}).get("obligations", []):
        out.append({"obligation": o["obligation"], "kind": "smoke", "status": o["status"],
                    "site": o.get("where", ""), "what": o.get("what"), "detail": o.get("detail", ""),
                    "exception": o.get("exception"), "traceback": o.get("traceback"),
                    "raised_at": o.get("raised_at"), "bounded": True, "wall_s": o.get("wall_s")})
    return out


def _nontrivial(o):
    """A bind obligation is non-trivial when the callee takes at least one explicit parameter
    or the call site passes at least one argument (i.e. the bind can fail); a smoke obligation
    is non-trivial when it executes repo code beyond importing a module."""
    if o["kind"] == "import":
        return False
    if o["kind"] == "smoke":
        return not o["obligation"].startswith("smoke/import:")
    a = o.get("args") or {}
    passes = a.get("positional", 0) or a.get("keywords") or a.get("star") or a.get("double_star")
    sig = o.get("signature") or "()"
    params = [p for p in re.sub(r"^\(|\)( -> .*)?$", "", sig).split(",") if p.strip() and p.strip() not in ("self", "cls", "/", "*")]
    return bool(passes or params)


def run_custom(tier, seed, repo_root="/repo", relock=False) -> int:
    t0 = time.time()
    repo_root = os.path.realpath(repo_root or "/repo")
    try:
        seed = int(os.environ.get("VERIF_SEED", seed if seed is not None else 0))
    except ValueError:
        seed = 0
    try:
        report, err, cmd = _spawn(tier, seed, repo_root)
    except subprocess.TimeoutExpired:
        print(f"CHECKER-CRASH: conform timed out after {TIMEOUT_S[tier]} s", file=sys.stderr)
        return 3
    if report is None or report.get("crash"):
        print(f"CHECKER-CRASH: {err or report.get('crash')}", file=sys.stderr)
        return 3

    known = _load_known()
    versions = report.get("versions", [])
    crashes = [f"pulser-core {v.get('version')}: {v['crash']}" for v in versions if v.get("crash")]
    undecided_msgs, violations, known_hit = [], [], {}
    all_obs, samples = [], []
    os.makedirs(os.path.join(VERIF, "replays"), exist_ok=True)

    if not report.get("specifiers"):
        undecided_msgs.append("no pulser-core requirement found in pyproject.toml / ci/*/pyproject.toml")
    if not report.get("admitted"):
        undecided_msgs.append(
            "no pulser-core distribution available offline satisfies the declared specifier "
            f"{[s['requirement'] for s in report.get('specifiers', [])]}; offline: "
            f"{[r['version'] for r in report.get('rejected', [])]}")

    for ver in versions:
        if ver.get("crash"):
            continue
        obs = _obligations(ver)
        for o in obs:
            o["pulser_core"] = ver["version"]
        all_obs += obs
        for o in obs:
            if o["status"] == "undecided":
                undecided_msgs.append(f"{o['obligation']} [pulser-core {ver['version']}]: {o['detail']}")
            elif o["status"] == "failed":
                k = known.get(o["obligation"])
                if k is not None:
                    known_hit.setdefault(k["id"], (k, []))[1].append(o["obligation"])
                    o["status"] = "known"
                    continue
                path = os.path.join(VERIF, "replays", f"{ID}__" + re.sub(r"[^A-Za-z0-9_.#-]+", "_", o["obligation"])[:180] + ".json")
                rec = {"property": ID, "obligation": o["obligation"], "pulser_core": ver["version"],
                       "declared_requirement": [s["requirement"] for s in report.get("specifiers", [])],
                       "kind": o["kind"], "bounded_smoke_obligation": o["bounded"],
                       "call_site": o["site"], "scope": o.get("scope"), "expression": o.get("expr"),
                       "callee": o.get("callee"), "callee_signature": o.get("signature"),
                       "arguments_at_call_site": o.get("args"), "what": o.get("what"),
                       "failure": o["detail"], "native_exception": o.get("exception"),
                       "raised_at": o.get("raised_at"), "traceback": o.get("traceback"),
                       "repo_root": repo_root,
                       "reproduce": f"cd {VERIF} && ./check {ID} --tier {tier} --repo {repo_root}   # or: cd {repo_root} && PYTHONPATH={repo_root}:{VERIF} {NATIVE_PY} -m conform --repo {repo_root} --tier {tier}"}
                with open(path, "w") as f:
                    json.dump(rec, f, indent=1, default=str)
                violations.append((o["obligation"], path, o["detail"]))

    # ---- lock (vacuity guard): obligations that held on the pinned tree must still be generated
    lock_all = {}
    if os.path.exists(LOCK):
        with open(LOCK) as f:
            lock_all = json.load(f)
    names = {o["obligation"] for o in all_obs}
    if relock:
        lock_all[ID] = sorted(o["obligation"] for o in all_obs if o["status"] in ("ok", "known")
                              and not o["obligation"].startswith(("import/", "smoke/import:")))
        with open(LOCK, "w") as f:
            json.dump(lock_all, f, indent=1, sort_keys=True)
    missing = sorted(set(lock_all.get(ID, [])) - names) if not crashes else []

    # ---- evidence
    n_eval = len(all_obs)
    distinct_nt = len({o["obligation"] for o in all_obs if _nontrivial(o)})
    static_sites = [o for o in all_obs if o["kind"] not in ("smoke", "import")]
    for o in static_sites[:: max(1, len(static_sites) // 10)][:12]:
        samples.append({"obligation": o["obligation"], "site": o["site"], "expr": o["expr"], "callee": o["callee"],
                        "callee_signature": o["signature"], "args": o["args"], "status": o["status"], "detail": o["detail"]})
    for o in [o for o in all_obs if o["kind"] == "smoke" and not o["obligation"].startswith("smoke/import:")][::4][:12]:
        samples.append({"obligation": o["obligation"], "what": o["what"], "status": o["status"],
                        "detail": (o["detail"] or "")[:300], "bounded_smoke": True})
    for o in [o for o in all_obs if o["status"] in ("failed", "known")]:
        if not any(s["obligation"] == o["obligation"] for s in samples):
            samples.append({"obligation": o["obligation"], "site": o["site"], "status": o["status"],
                            "detail": (o["detail"] or "")[:300], "bounded_smoke": o["bounded"]})
    by_status, by_kind = {}, {}
    for o in all_obs:
        by_status[o["status"]] = by_status.get(o["status"], 0) + 1
        by_kind[o["kind"]] = by_kind.get(o["kind"], 0) + 1
    ver_info = [{"version": v.get("version"), "source": v.get("source"), "torch": v.get("torch"),
                 "static_wall_s": v.get("static_wall_s"), "smoke_wall_s": v.get("smoke_wall_s"),
                 "files_scanned": v.get("static", {}).get("files"),
                 "classes_deriving_from_pulser": [f"{d['module']}.{d['class']}" for d in v.get("static", {}).get("derived_classes", [])],
                 "receivers_not_typed_statically": v.get("static", {}).get("unresolved_receivers", []),
                 "dynamic_boundary": v.get("dynamic")} for v in versions]
    cov = {
        "explanation": (
            "Interface conformance of the emulators against each pulser-core distribution that is available "
            "offline and admitted by the declared requirement. STATIC part (unbounded over inputs, one obligation "
            "per call site): every `from pulser... import X`, every super().m(...) reaching a pulser class, every "
            "direct/inherited/typed-receiver call into pulser found in the AST of emu_base, emu_mps, emu_sv must "
            "bind (inspect.Signature.bind with the positional count and keyword names written at the call site) to "
            "the signature of the callee resolved in the installed pulser. RUN-TIME part (BOUNDED SMOKE obligations, "
            "one 3-atom sequence per backend, plus a noisy variant and an XY variant with SLM mask for emu_mps; thorough adds 4 atoms): all modules import, "
            "classes deriving from pulser ABCs are concrete, every Observable subclass defined in the repo and every "
            "observable re-exported by emu_mps/emu_sv can be constructed, shape/type contracts on values pulser "
            "returns to emu_base.pulser_adapter hold (interaction matrix n x n, nested sample dict layout, bad_atoms, "
            "basis data), MPSBackendImpl/SVBackendImpl can be constructed, MPSBackend/SVBackend run end to end and "
            "return Results containing every configured observable. A profiler records every call crossing from a "
            "repo frame into a pulser frame during the smoke runs; the static scanner's coverage is measured against it."),
        "evaluations": n_eval,
        "distinct_nontrivial": distinct_nt,
        "rule": ("one evaluation per obligation per admitted pulser-core version: an import of a pulser name, a call site "
                 "bound against the callee signature, or one smoke obligation. Distinct = distinct obligation names "
                 "(file:scope->callee, #k for repeats). Non-trivial = a bind whose callee has at least one explicit "
                 "parameter or whose call site passes an argument (so the bind can fail), or a smoke obligation that "
                 "executes repo code beyond a module import; import-existence obligations are counted as trivial."),
        "samples": samples,
        "checker_cmd": f"./check {ID} --tier {tier}" + ("" if repo_root == "/repo" else f" --repo {repo_root}"),
        "native_cmd": cmd,
        "trusted_base": [
            "CPython's inspect.signature / Signature.bind implement Python's argument-binding rules",
            "the callee resolved statically (first definer in the C3 linearisation; annotation-declared receiver types) "
            "is the callee reached at run time -- cross-checked against the profiler's dynamic crossings on the smoke runs",
            "the offline pulser-core distributions enumerated (installed + wheels in /opt/veriftools/wheels) are the "
            "only ones judged; admitted versions that are not available offline are NOT covered",
            "smoke obligations are evaluated on one small sequence per backend (bounded, not a proof over sequences)",
        ],
        "declared_requirements": report.get("specifiers"),
        "offline_versions_admitted": report.get("admitted"),
        "offline_versions_rejected": report.get("rejected"),
        "versions": ver_info,
        "by_status": by_status, "by_kind": by_kind,
        "call_sites_checked": len(static_sites),
        "failed_obligations": sorted(o["obligation"] for o in all_obs if o["status"] == "failed"),
        "known_findings_hit": {fid: sorted(set(names_)) for fid, (_, names_) in known_hit.items()},
        "undecided": undecided_msgs, "missing_locked_obligations": missing,
        "lock_size": len(lock_all.get(ID, [])),
        "exhaustive": False,
        "not_decided": ["pulser-core versions admitted by the specifier but not available offline (e.g. 1.8.x)",
                        "call sites whose receiver type cannot be inferred statically and that the smoke runs do not execute",
                        "numerical agreement of results across pulser versions (only construction/shape/type is judged)"],
    }
    ev = {"property_id": ID, "tier": tier, "seed": int(seed), "level": LEVEL, "coverage": cov,
          "assumptions": ["PYTHONPATH puts repo_root first, so emu_base/emu_mps/emu_sv are imported from the tree under "
                          "check (verified per module at run time; otherwise exit 3)",
                          "pulser's own type annotations are used to type attribute chains (e.g. Sequence.register, "
                          "HamiltonianData.noisy_samples); a wrong annotation in pulser could hide a call site",
                          "CPU only (CUDA_VISIBLE_DEVICES is emptied unless already set)"],
          "wall_s": round(time.time() - t0, 2), "violations": len(violations)}
    _evdir = os.environ.get("PYVC_EVIDENCE_DIR", os.path.join(VERIF, "evidence"))
    os.makedirs(_evdir, exist_ok=True)
    with open(os.path.join(_evdir, f"{ID}.json"), "w") as f:
        json.dump(ev, f, indent=1, default=str)

    # ---- report
    for fid, (k, names_) in sorted(known_hit.items()):
        print(f"KNOWN-FINDING: property={ID} {k.get('what', fid)} [{', '.join(sorted(set(names_)))}]")
    vs = ", ".join(f"{v.get('version')} ({v.get('source')})" for v in versions) or "none"
    print(f"{ID}: pulser-core {vs} admitted by {[s['requirement'] for s in report.get('specifiers', [])]}; "
          f"{by_status.get('ok', 0)}/{n_eval} obligations hold ({len(static_sites)} call sites bound, "
          f"{by_kind.get('import', 0)} imports, {by_kind.get('smoke', 0)} smoke), {ev['wall_s']} s")
    for c in crashes:
        print(f"CHECKER-CRASH: {c}", file=sys.stderr)
    for m in undecided_msgs:
        print(f"UNDECIDED {m}")
    for n in missing:
        print(f"UNDECIDED locked obligation no longer generated: {n}")
    for n, path, detail in violations:
        print(f"  failed obligation: {n}: {detail[:200]}")
        print(f"VIOLATION property={ID} replay={path}")
    if violations:
        return 1
    if crashes:
        return 3
    if versions and (not static_sites or not by_kind.get("smoke")):
        print("CHECKER-CRASH: no call site / no smoke obligation generated (vacuity guard)", file=sys.stderr)
        return 3
    if undecided_msgs or missing:
        return 2
    return 0
