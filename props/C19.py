"""C19 -- Brent root finding stays inside the bracket and ends at a sign change."""
from contracts import brents

ID = "C19"
LEVEL = "proof"
REPLAY = "replay/c19.py"


def build(reg):
    brents.register(reg, "C19")
    M = brents.MOD
    return dict(
        targets=[f"{M}:BrentsRootFinder.__init__", f"{M}:BrentsRootFinder.get_next_abscissa",
                 f"{M}:BrentsRootFinder.provide_ordinate", f"{M}:BrentsRootFinder.is_converged",
                 f"{M}:find_root_brents"],
        not_decided=["termination of find_root_brents (no ranking function exists over the reals: an "
                     "adversarial ordinate sequence can keep |b-a| >= tolerance; see DESIGN.md C19)"],
        trusted=["the function argument f is a mathematical function F: R -> R (same value for the same point)"],
    )
