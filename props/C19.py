"""C19 -- Brent root finding stays inside the bracket and ends at a sign change."""
from contracts import brents

ID = "C19"
LEVEL = "proof"
REPLAY = "replay/c19.py"
# bounded complement to the proof (pyvc/runner.py _start_native_side_check): the native falsifier also runs when all
# obligations discharge -- floats are reals in the proofs (A1) and only the functions under contract are covered
NATIVE_SIDE_CHECK = {"quick": True, "thorough": True}



def extra_checks(tier, seed, repo_root):
    """bounded floating-point side obligations (concrete IEEE execution of the real source)"""
    from contracts import brents_fp
    return brents_fp.run("C19", tier, repo_root)


def build(reg):
    brents.register(reg, "C19")
    M = brents.MOD
    return dict(
        targets=[f"{M}:BrentsRootFinder.__init__", f"{M}:BrentsRootFinder.get_next_abscissa",
                 f"{M}:BrentsRootFinder.provide_ordinate", f"{M}:BrentsRootFinder.is_converged",
                 f"{M}:find_root_brents"],
        not_decided=["termination of find_root_brents (no ranking function exists over the reals: an "
                     "adversarial ordinate sequence can keep |b-a| >= tolerance; see DESIGN.md C19)"],
        trusted=["the function argument f is a mathematical function F: R -> R (same value for the same point)"],
        bounded=["find_root_brents[float]/fp/*: the proof is over the reals (A1); products of ordinates under- and "
                 "overflow in doubles, so the module's source is also executed concretely on 10 function shapes x "
                 "ordinate scales 1e-300 .. 1e300 x 3 tolerance/epsilon pairs x both signs (888 runs; thorough: "
                 "2960), through find_root_brents and one ordinate at a time; clauses: no exception, terminates within "
                 "400 evaluations, queries inside the bracket, result within the tolerance of a sign change. Bounded: "
                 "labelled bounded-float in the evidence, never counted as proved"],
    )

# negative controls (thorough tier): (name, file, old text, new text)
CONTROLS = [
    ("drop the direction test of an interpolation step", "emu_base/math/brents_root_finding.py",
     "(adx >= abs(3 * delta_ab / 4) or dx * delta_ab < 0)", "(adx >= abs(3 * delta_ab / 4))"),
    ("accept steps up to 5/4 of the bracket", "emu_base/math/brents_root_finding.py",
     "adx >= abs(3 * delta_ab / 4)", "adx >= abs(5 * delta_ab / 4)"),
    ("update a instead of b on a sign change", "emu_base/math/brents_root_finding.py",
     "            self.b, self.fb = abscissa, ordinate\n        else:\n            self.a, self.fa = abscissa, ordinate",
     "            self.a, self.fa = abscissa, ordinate\n        else:\n            self.b, self.fb = abscissa, ordinate"),
    ("sign test by a product that underflows (the repaired defect)", "emu_base/math/brents_root_finding.py",
     "if (self.fa < 0 < ordinate) or (ordinate < 0 < self.fa):", "if self.fa * ordinate < 0:"),
    ("bracket update keyed on fb (identical over the reals, underflows on a flat side)", "emu_base/math/brents_root_finding.py",
     "if (self.fa < 0 < ordinate) or (ordinate < 0 < self.fa):", "if self.fb * ordinate > 0:"),
    ("remove the exact-root requery", "emu_base/math/brents_root_finding.py",
     "        if self.fb == 0:", "        if False:"),
]
