"""C19 -- Brent root finding stays inside the bracket and ends at a sign change."""
from contracts import brents

ID = "C19"
LEVEL = "proof"
REPLAY = "replay/c19.py"


def build(reg):
    brents.register(reg, "C19")
    M = brents.MOD
    return dict(
        targets=[f"{M}:BrentsRootFinder.__init__", f"{M}:BrentsRootFinder.get_next_abscissa",
                 f"{M}:BrentsRootFinder.provide_ordinate", f"{M}:BrentsRootFinder.is_converged",
                 f"{M}:find_root_brents"],
        not_decided=["termination of find_root_brents (no ranking function exists over the reals: an "
                     "adversarial ordinate sequence can keep |b-a| >= tolerance; see DESIGN.md C19)"],
        trusted=["the function argument f is a mathematical function F: R -> R (same value for the same point)"],
    )

# negative controls (thorough tier): (name, file, old text, new text)
CONTROLS = [
    ("drop the direction test of an interpolation step", "emu_base/math/brents_root_finding.py",
     "(adx >= abs(3 * delta_ab / 4) or dx * delta_ab < 0)", "(adx >= abs(3 * delta_ab / 4))"),
    ("accept steps up to 5/4 of the bracket", "emu_base/math/brents_root_finding.py",
     "adx >= abs(3 * delta_ab / 4)", "adx >= abs(5 * delta_ab / 4)"),
    ("update a instead of b on a sign change", "emu_base/math/brents_root_finding.py",
     "        if self.fa * ordinate < 0:\n            self.b, self.fb = abscissa, ordinate\n        else:\n            self.a, self.fa = abscissa, ordinate",
     "        if self.fa * ordinate < 0:\n            self.a, self.fa = abscissa, ordinate\n        else:\n            self.b, self.fb = abscissa, ordinate"),
    ("remove the exact-root requery", "emu_base/math/brents_root_finding.py",
     "        if self.fb == 0:", "        if False:"),
]
