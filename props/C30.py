"""C30 -- emu-sv gradients are finite and equal finite differences (one clause decided here)."""
from contracts import pchip

ID = "C30"
LEVEL = "proof"
REPLAY = "replay/c30.py"


def build(reg):
    pchip.register_c30(reg, "C30")
    M = pchip.MOD
    return dict(
        targets=[f"{M}:_pchip_derivatives[finite]", f"{M}:_polynomial_coeffs[finite]",
                 f"{M}:PCHIP1D.__init__[finite]"],
        not_decided=["agreement of autograd gradients with finite differences (floating-point numerical analysis "
                     "of the Krylov forward/backward passes: out of reach of per-function contracts)",
                     "finiteness of gradients through the Krylov exponential and the double-Krylov backward pass"],
        explanation="Decided clause: every denominator evaluated while the drive interpolant (PCHIP) is built is "
                    "non-zero for strictly increasing knots and arbitrary finite samples, so no NaN/inf enters the "
                    "waveform-parameter gradients through a masked torch.where branch.",
        trusted=["torch.where back-propagates through both branches (a zero denominator in the discarded branch "
                 "yields NaN gradients): this is why *every* denominator is required non-zero"],
    )


# negative controls (thorough tier): (name, file, old text, new text)
CONTROLS = [('divide by the raw secants (the repaired defect)',
  'emu_base/math/pchip_torch.py',
  '        torch.where(mask_same_sign, delta_l, ones),\n        torch.where(mask_same_sign, delta_r, ones),',
  '        delta_l,\n        delta_r,')]
