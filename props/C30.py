"""C30 -- emu-sv gradients are finite and equal finite differences.

Two parts, labelled apart in the evidence:

* PROOFS (Engine A, pyvc + z3): the "finite" clause for the drive interpolant (PCHIP) -- every denominator
  evaluated while it is built is non-zero.
* BOUNDED symbolic obligations (Engine B, symtorch; kind "bounded-symbolic"): the hand-written derivative
  operators used by EvolveStateVector.backward are the partial derivatives of the Hamiltonian, and backward
  combines them by the documented trace formula.  contracts/sv_gradops.py, symharness/c30.py.

Not decided: agreement of the full backward pass with finite differences (Krylov numerics, autograd).

The lock (obligations.lock.json) is written from the QUICK tier (`./check C30 --relock`); obligations that exist
in the thorough tier only carry `nolock` and are never written to it.
"""
from contracts import pchip, sv_gradops

ID = "C30"
LEVEL = "proof"
REPLAY = "replay/c30.py"
# bounded complement to the proof (pyvc/runner.py _start_native_side_check): the native falsifier also runs when all
# obligations discharge -- floats are reals in the proofs (A1) and only the functions under contract are covered
NATIVE_SIDE_CHECK = {"quick": True, "thorough": True}


_PLAN = {}


def extra_checks(tier, seed, repo_root):
    """bounded symbolic obligations for the derivative operators of the backward pass (Engine B)"""
    reports = sv_gradops.run("C30", tier, seed, repo_root)
    obs = [o for r in reports for o in r["obligations"]]
    by = {}
    for o in obs:
        by[o["status"]] = by.get(o["status"], 0) + 1
    first = reports[0] if reports else {}
    if _PLAN:                                   # measured numbers of this run, next to the static description
        _PLAN["bounded"] = list(sv_gradops.BOUNDED) + [
            f"this run ({tier}): {len(obs)} bounded-symbolic obligations, by status {by}; every other obligation "
            f"of this evidence (kinds other than bounded-symbolic) is a proof obligation discharged by z3/cvc5"]
        _PLAN["coverage_extra"] = dict(engine_b_bounded_part=dict(
            obligations=len(obs), by_status=by, bounds=sv_gradops.BOUNDS,
            by_class={r["label"]: len(r["obligations"]) for r in reports},
            shim_ops_exercised=first.get("shim_ops_exercised"),
            shim_selftest=first.get("shim_selftest"),
            shim_ops_not_covered_by_selftest=first.get("shim_ops_not_covered_by_selftest"),
            driver_wall_s=first.get("driver_wall_s"), total_wall_s=first.get("total_wall_s")))
    return reports


def build(reg):
    pchip.register_c30(reg, "C30")
    M = pchip.MOD
    plan = dict(
        targets=[f"{M}:_pchip_derivatives[finite]", f"{M}:_polynomial_coeffs[finite]",
                 f"{M}:PCHIP1D.__init__[finite]"],
        not_decided=["agreement of the autograd gradients of a full run with finite differences: the backward pass "
                     "contracts the derivative operators with the output of emu_base.math.double_krylov (Frechet "
                     "derivative of the matrix exponential in two Krylov bases); that the Krylov data represent "
                     "dU(H, |psi><g|) to the requested tolerance is floating-point numerical analysis, out of reach "
                     "of per-function contracts and of the polynomial shim",
                     "finiteness of gradients through the Krylov exponential and the double-Krylov backward pass",
                     "gradients with respect to the initial state (krylov_exp of the adjoint) and the chaining of the "
                     "per-step gradients through autograd and pulser_adapter (only the PCHIP 'finite' clause is "
                     "decided there)",
                     "the derivative operators beyond the explored number of atoms (the bounded part stops at N = 4, "
                     "thorough N = 6) and floating-point rounding inside them"],
        explanation="PROOFS (kinds other than bounded-symbolic; z3/cvc5): every denominator evaluated while the drive "
                    "interpolant (PCHIP) is built is non-zero for strictly increasing knots and arbitrary finite "
                    "samples, so no NaN/inf enters the waveform-parameter gradients through a masked torch.where "
                    "branch. BOUNDED (kind bounded-symbolic, backend symtorch; NOT proofs, listed under 'bounded'): "
                    "the real DHDOmegaSparse / DHDDeltaSparse / DHDPhiSparse / DHDUSparse of emu_sv/time_evolution.py "
                    "applied to arbitrary symbolic complex vectors equal the exact polynomial partial derivative of "
                    "the dense Kronecker-product Hamiltonian with respect to Omega_k / delta_k / phi_k / U_ij times "
                    "those vectors, for every site / pair and every pattern of literally-zero phases up to the bound "
                    "on the number of atoms; EvolveStateVector.backward combines them by Re Tr(-i dt dH/dp Vs^T dS "
                    "conj(Vg)) at the right site with the Krylov data left arbitrary. coverage.obligations / "
                    "discharged count both kinds; coverage.by_kind gives the split.",
        trusted=["torch.where back-propagates through both branches (a zero denominator in the discarded branch "
                 "yields NaN gradients): this is why *every* denominator is required non-zero"] + sv_gradops.TRUSTED,
        bounded=list(sv_gradops.BOUNDED),
        assumptions=list(sv_gradops.ASSUMPTIONS),
    )
    _PLAN.clear()
    _PLAN.update(plan)
    return _PLAN


# negative controls (thorough tier): (name, file, old text, new text)
CONTROLS = [('divide by the raw secants (the repaired defect)',
  'emu_base/math/pchip_torch.py',
  '        torch.where(mask_same_sign, delta_l, ones),\n        torch.where(mask_same_sign, delta_r, ones),',
  '        delta_l,\n        delta_r,'),
 ('DHDDeltaSparse: wrong sign (dH/ddelta = +n)',
  'emu_sv/time_evolution.py',
  '        return -result.view(vec.shape[0], 2**self.nqubits)',
  '        return result.view(vec.shape[0], 2**self.nqubits)'),
 ('DHDOmegaSparse: missing factor 0.5',
  'emu_sv/time_evolution.py',
  '        self.alpha = 0.5 * torch.exp(1j * phi).item()',
  '        self.alpha = 1.0 * torch.exp(1j * phi).item()'),
 ('DHDPhiSparse: phase derivative without the quarter turn (applies dH/dOmega * Omega)',
  'emu_sv/time_evolution.py',
  '        self.alpha = 0.5 * (omega * torch.exp(1j * (phi + torch.pi / 2))).item()',
  '        self.alpha = 0.5 * (omega * torch.exp(1j * phi)).item()'),
 ('DHDUSparse: projects atom j onto |g> instead of |r>',
  'emu_sv/time_evolution.py',
  '        result[:, :, 1, :, 0] = 0.0',
  '        result[:, :, 1, :, 1] = 0.0'),
 ('backward: phase gradient of atom i built from the amplitude of atom 0 (wrong site index)',
  'emu_sv/time_evolution.py',
  '                dhp = DHDPhiSparse(i, e_l.device, nqubits, omegas[i], phis[i])',
  '                dhp = DHDPhiSparse(i, e_l.device, nqubits, omegas[0], phis[i])')]
