"""C32 -- qubit-order optimisation returns a valid, no-worse permutation; helpers are consistent."""
from contracts import permutations as P

ID = "C32"
LEVEL = "proof"
REPLAY = "replay/c32.py"
# bounded complement to the proof (pyvc/runner.py _start_native_side_check): the native falsifier also runs when all
# obligations discharge -- floats are reals in the proofs (A1) and only the functions under contract are covered
NATIVE_SIDE_CHECK = {"quick": True, "thorough": True}



def build(reg):
    P.register(reg, "C32")
    M, O = P.PERM, P.OPT
    samples = (0, 3)
    return dict(
        targets=[f"{M}:eye_permutation", f"{M}:permute_list", f"{M}:permute_tuple", f"{M}:permute_string",
                 f"{M}:inv_permutation", f"{M}:permute_tensor[1d]", f"{M}:permute_tensor[1d,permutation]",
                 f"{M}:permute_tensor[2d]", f"{M}:permute_tensor[3d]",
                 f"{O}:matrix_bandwidth", f"{O}:minimize_bandwidth_above_threshold",
                 f"{O}:minimize_bandwidth_global", f"{O}:minimize_bandwidth_global[best-of-90]",
                 f"{O}:minimize_bandwidth_impl"]
                + [f"{O}:minimize_bandwidth[samples={s}]" for s in samples],
        lemmas=P.make_lemmas(reg),
        not_decided=[
            "that reverse Cuthill-McKee / the threshold sweep find a *good* ordering (only 'valid and no worse "
            "than the input order' is claimed by the property)",
            "is_symmetric(matrix): torch.allclose is not interpreted (an arbitrary Boolean); the optimiser's "
            "guarantees do not depend on symmetry",
            "python's tie-break in min(): any minimal candidate is allowed by the model",
            "floating-point rounding inside matrix_bandwidth (floats are reals, A1): `.to(mat.dtype)` is the identity",
        ],
        trusted=["scipy.sparse.csgraph.reverse_cuthill_mckee returns a permutation of range(n) (A4)",
                 "torch.randperm(n) returns a permutation of range(n) (A4)",
                 "torch.max over a matrix is a function of the matrix entries (extensional), (A3)"],
        bounded=[f"minimize_bandwidth: number of random restarts `samples` fixed to {samples} "
                 "in both tiers.  emu-mps always uses the default samples = 100: NOT verified at that size (101 modular "
                 "calls did not finish in 30 min, 11 not in 15 min); the proof is uniform in the number of candidates "
                 "(each candidate is handled by the same contract of minimize_bandwidth_impl and min() picks one of "
                 "them) but that uniformity is not mechanised.  Matrix size n is symbolic",
                 "minimize_bandwidth_global: the 90 thresholds of torch.arange(0.1, 1.0, 0.01) are unrolled "
                 "(they are concrete in the source); matrix size n is symbolic"],
    )
