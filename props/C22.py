"""C22 -- per-step drive values are the interpolated Pulser samples; amplitude never negative."""
from contracts import drives, pchip

ID = "C22"
LEVEL = "proof"
REPLAY = "replay/c22.py"
# bounded complement to the proof (pyvc/runner.py _start_native_side_check): the native falsifier also runs when all
# obligations discharge -- floats are reals in the proofs (A1) and only the functions under contract are covered
NATIVE_SIDE_CHECK = {"quick": True, "thorough": True}



def build(reg):
    drives.register(reg, "C22")
    A = drives.ADAPTER
    return dict(
        targets=[f"{A}:_extract_omega_delta_phi[ground-rydberg]", f"{A}:_extract_omega_delta_phi[XY]",
                 f"{A}:_extract_omega_delta_phi[amplitude>=0]"],
        lemmas=pchip.LEMMAS,
        bounded=["number of (filtered) qubits fixed to 2: the loop over qubits is unrolled; steps and samples are symbolic"],
        not_decided=["that PCHIP1D's value is 'the shape-preserving cubic interpolation' is C20 (used here by contract)"],
        trusted=["pulser SequenceSamples.to_nested_dict(all_local=True, samples_type='tensor') returns "
                 "{'Local': {basis: {qubit: {'amp','det','phase': real 1-d tensors of max_duration entries}}}}",
                 "PCHIP1D contracts (verified under C20)"],
    )


# negative controls (thorough tier): (name, file, old text, new text)
CONTROLS = [('midpoint replaced by the step start',
  'emu_base/pulser_adapter.py',
  't_mid = 0.5 * (target_t[:-1] + target_t[1:])',
  't_mid = 1.0 * target_t[:-1]'),
 ('phase written into the detuning array',
  'emu_base/pulser_adapter.py',
  '"det": delta_mid,\n        "phase": phi_mid,',
  '"det": phi_mid,\n        "phase": delta_mid,'),
 ('no clamp of the extrapolated amplitude',
  'emu_base/pulser_adapter.py',
  '(t_mid > t_grid[-1]) & (values < 0)',
  '(t_mid > t_grid[-1] + 1.0) & (values < 0)')]
