"""C23 -- interactions follow the register, cutoff, custom matrix and SLM schedule."""
from contracts import sequences

ID = "C23"
LEVEL = "proof"
REPLAY = "replay/c23.py"
# bounded complement to the proof (pyvc/runner.py _start_native_side_check): the native falsifier also runs when all
# obligations discharge -- floats are reals in the proofs (A1) and only the functions under contract are covered
NATIVE_SIDE_CHECK = {"quick": True, "thorough": True}



def build(reg):
    sequences.register(reg, "C23")
    A = sequences.ADAPTER
    return dict(
        targets=[f"{A}:PulserData.get_sequences[register matrix]", f"{A}:PulserData.get_sequences[custom matrix]",
                 f"{A}:_InteractionMatrixCallable.__call__"],
        not_decided=["which time the solvers query the callable at within a step (emu-sv: step start; emu-mps: "
                     "step midpoint) is part of the wiring clauses of C01/C02"],
        trusted=["pulser: trajectory.interaction_matrix.as_tensor() is the register's matrix; "
                 "register.find_indices returns indices in range", "element-wise torch semantics (A3)"],
    )


# negative controls (thorough tier): (name, file, old text, new text)
CONTROLS = [('cutoff compares signed values',
  'emu_base/pulser_adapter.py',
  'torch.abs(full_interaction_matrix) < self.interaction_cutoff',
  'full_interaction_matrix < self.interaction_cutoff'),
 ('SLM mask zeroes rows only',
  'emu_base/pulser_adapter.py',
  '                masked_interaction_matrix[:, target] = 0.0\n',
  ''),
 ('masked matrix aliases the full one',
  'emu_base/pulser_adapter.py',
  'masked_interaction_matrix = full_interaction_matrix.clone()',
  'masked_interaction_matrix = full_interaction_matrix'),
 ('full matrix also at the SLM end time boundary',
  'emu_base/pulser_adapter.py',
  'if t < self.slm_end_time',
  'if t <= self.slm_end_time')]
