"""C23 -- interactions follow the register, cutoff, custom matrix and SLM schedule."""
from contracts import sequences

ID = "C23"
LEVEL = "proof"
REPLAY = "replay/c23.py"


def build(reg):
    sequences.register(reg, "C23")
    A = sequences.ADAPTER
    return dict(
        targets=[f"{A}:PulserData.get_sequences[register matrix]", f"{A}:PulserData.get_sequences[custom matrix]",
                 f"{A}:_InteractionMatrixCallable.__call__"],
        not_decided=["which time the solvers query the callable at within a step (emu-sv: step start; emu-mps: "
                     "step midpoint) is part of the wiring clauses of C01/C02"],
        trusted=["pulser: trajectory.interaction_matrix.as_tensor() is the register's matrix; "
                 "register.find_indices returns indices in range", "element-wise torch semantics (A3)"],
    )
