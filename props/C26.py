"""C26 -- resuming from an autosave gives the same results as an uninterrupted run (structural clauses)."""
from contracts import resume

ID = "C26"
LEVEL = "proof"
REPLAY = "replay/c26.py"
# bounded complement to the proof (pyvc/runner.py _start_native_side_check): the native falsifier also runs when all
# obligations discharge -- floats are reals in the proofs (A1) and only the functions under contract are covered
NATIVE_SIDE_CHECK = {"quick": True, "thorough": True}



def build(reg):
    resume.register(reg, "C26")
    B = resume.BACKEND
    return dict(
        targets=[f"{B}:MPSBackend._run", f"{B}:MPSBackend._run_from_sequence_data", f"{B}:MPSBackend.resume"],
        not_decided=["equality of the numerical values of resumed and uninterrupted runs (floating point; for noisy "
                     "runs equality in distribution)",
                     "completeness of the pickled state (__getstate__/__setstate__ round trip through pulser's abstract "
                     "representation of Results): assumed (pickle round trip, A4)",
                     "multi-trajectory runs: resume() continues one trajectory only (DESIGN.md section 6, defect 8b)"],
        trusted=["pickle.load returns the MPSBackendImpl that was saved (A4)",
                 "ghost file system of contracts/autosave.py; a simulation step may leave the advertised file in any state"],
    )
