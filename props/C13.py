"""C13 -- observable kernels equal their definitions.

Two parts, one evidence file, level "other" (part of it is bounded):
  * Engine B (symtorch), BOUNDED: the emu-sv kernels (state vectors, density matrices) as exact
    polynomial identities -- SPEC below, props/_engineb.py;
  * Engine A (pyvc, contracts/mps_readers.py), every number of sites / bond dimension: the
    STRUCTURAL clauses that make the local formulas of the emu-mps readers valid (QR based, outside
    Engine B): expect_batch, get_correlation_matrix, entanglement_entropy, the emu-mps callbacks,
    get_extended_site_index.  `build(reg)` returns that plan; its evidence is merged under
    coverage["engine_a"].  The linear-algebra links (contraction at the centre = expectation, ...) are trusted.
Fidelity and the normalisation in fill_results are not decided here.
"""
import json
import multiprocessing as mp
import os
import sys
import time

from props import _engineb

ID = "C13"
LEVEL = "other"
REPLAY = "replay/c13_mps.py"          # native falsifier of the Engine-A (MPS reader) obligations
# bounded complement to the proof (pyvc/runner.py _start_native_side_check): the native falsifier also runs when all
# obligations discharge -- floats are reals in the proofs (A1) and only the functions under contract are covered
NATIVE_SIDE_CHECK = {"quick": True, "thorough": True}


BOUNDS = ("state-vector kernels: N = 1..3 atoms (thorough: 4), every zero/non-zero phase pattern for N <= 2 "
          "(thorough: N <= 3), 4 patterns above, 2-3 interaction patterns; density-matrix kernels: N = 1..2 "
          "(thorough: 3), with 0 and 1 symbolic jump operator; all values symbolic, states NOT assumed normalised")

CB = "emu_sv/custom_callback_implementations.py"
CONTROLS = [
    dict(name="occupation reads the |g> slice", file=CB,
         old="occupation[i] = torch.linalg.vector_norm(state_tensor[:, 1]) ** 2",
         new="occupation[i] = torch.linalg.vector_norm(state_tensor[:, 0]) ** 2"),
    dict(name="state-vector correlation reads the wrong slice for atom j", file=CB,
         old="select_ij = select_i[:, :, 1, :]", new="select_ij = select_i[:, :, 0, :]"),
    dict(name="density-matrix correlation reads the wrong slice for atom j", file=CB,
         old="state_diag_ni_nj = state_diag_ni.view(*shapeij)[:, :, 1, :]",
         new="state_diag_ni_nj = state_diag_ni.view(*shapeij)[:, :, 0, :]"),
    dict(name="variance subtracts E instead of E^2", file=CB,
         old="en_var: torch.Tensor = h_squared - energy**2", new="en_var: torch.Tensor = h_squared - energy"),
    dict(name="RydbergHamiltonian.expect returns <H psi|H psi>", file="emu_sv/hamiltonian.py",
         old="en = torch.vdot(state.data, self * state.data)", new="en = torch.vdot(self * state.data, self * state.data)"),
    dict(name="RydbergLindbladian.expect returns minus the energy", file="emu_sv/lindblad_operator.py",
         old="return en.real", new="return -en.real"),
]
QUICK_CONTROLS = ["occupation reads the |g> slice", "variance subtracts E instead of E^2"]

SPEC = dict(
    id=ID, bounds=BOUNDS,
    explanation=(
        "BOUNDED symbolic execution of the real modules (Engine B, /verif/symtorch). The unmodified kernels of "
        "emu_sv/custom_callback_implementations.py (qubit_occupation_sv(_den_mat)_impl, "
        "correlation_matrix_sv(_den_mat)_impl, energy_variance_sv(_den_mat)_impl, energy_second_moment_sv_impl, "
        "energy_second_moment_den_mat_impl) and RydbergHamiltonian.expect / RydbergLindbladian.expect / h_eff (what "
        "pulser's Energy observable calls) run on a symbolic, NOT normalised state vector psi or a symbolic Hermitian "
        "rho, with symbolic drive parameters, and are compared as exact polynomial identities (modulo c^2+s^2=1 and "
        "r^2=P for norms) with the definitions <psi|n_i|psi>, <psi|n_i n_j|psi>, <psi|H|psi>, <psi|H^2|psi>, "
        "<H^2>-<H>^2, Tr(rho n_i), Tr(rho n_i n_j), Tr(H rho), Tr(H^2 rho), Tr(H^2 rho)-Tr(H rho)^2, H being the dense "
        "Rydberg Hamiltonian from Kronecker products. Range clause: each occupation/correlation entry is shown to "
        "be a sub-sum (coefficient 1, squares) of <psi|psi> resp. of the diagonal of rho, hence in [0, 1] once the "
        "state is normalised / rho is positive with unit trace. Bounds: " + BOUNDS + ". NOT decided: MPS observables "
        "(QR/contraction based), entanglement entropy, fidelity, expectation of user operators, variance >= 0, dark-atom "
        "padding, that fill_results normalises before the callbacks (Engine A), N beyond the bounds (property: 8), "
        "floating-point rounding."),
    controls=CONTROLS, quick_controls=QUICK_CONTROLS, exhaustive=False,
    min_cases=dict(quick=40, thorough=80),
    assumptions=[
        "A1: float64/complex128 arithmetic is read as exact arithmetic",
        "A3: torch op semantics as implemented in /verif/symtorch/torch (differential self-test in the thorough tier)",
        "vector_norm is a root variable with r^2 = sum |x_k|^2 (sound for the identities checked, which only use r^2)",
        "allclose(imag, 0) in expect() is read exactly: the imaginary part must be the zero polynomial",
        "rho is Hermitian (symbolically: real diagonal, conjugate off-diagonal pairs); drive values real",
        "the callbacks ignore `self` and `config` (passed as None)",
    ],
    trusted=[
        "/verif/symtorch/poly.py normal form (incl. root variables)", "/verif/symtorch/torch shim",
        "/verif/symtorch/harness/symharness/{core,c06,c13}.py (dense definitions, comparison)",
        "NumPy 2.x object-array semantics; CPython 3.11", "pulser is stubbed",
    ],
)


def build(reg):
    """the Engine-A part: MPS readers on the factor-list model"""
    from contracts import mps_readers
    # fill_results: every due observable is handed the NORMALISED state (directly, or the dark-atom padding of its
    # factors) -- the data-flow contracts shared with C25 / C03 (registered first: the readers' model of the MPS
    # class, registered afterwards, is the one the reader contracts need)
    from contracts import mps_dataflow as D, mps_dataflow_sites as S
    D.register(reg, ID)
    S.register(reg, ID)
    targets = mps_readers.register_c13(reg, ID)
    targets = list(targets) + [f"{D.IMPL}:MPSBackendImpl.fill_results[no filter]", f"{D.IMPL}:MPSBackendImpl.fill_results[filter]"]
    return dict(
        targets=targets,
        explanation=(
            "MPS readers (contracts/mps_readers.py on the FactorList / canonical-form ghost state of C10), for "
            "every number of sites and all bond dimensions.  Every reported number is an uninterpreted function of "
            "the SITE(s) it was computed at (expect1(i,k), corr2(i,j), entropy(b)); the code obtains that term only "
            "through a contraction whose side conditions are proved where it happens: the tensor contracted is the "
            "centre of a canonical gauge of the same state (the list's factor at the declared centre, or the virtual "
            "centre expect_batch carries along by QR without writing the list), every factor left of the covered "
            "interval is left-orthonormal and every one right of it right-orthonormal, environments absorb the "
            "sites one by one in order.  Proved per function: MPS.expect_batch -- row i of the result is "
            "expect1(i, .) for all i (both sweeps), list untouched; MPS.get_correlation_matrix -- entry (i,j) is "
            "corr2(min,max) for all i,j (centre moved to `left` before row `left` is started, transfer through "
            "left+1..right in order), symmetric; MPS.entanglement_entropy / EntanglementEntropy.apply -- the "
            "singular values are read from the factor at mps_site while the centre is there, centre back on 0, "
            "range check exact; qubit_occupation_mps_impl -- entry i = expect1(i,0) with the operator being the "
            "projector on level 1; correlation_matrix_mps_impl; energy / second moment / variance -- which MPO, "
            "which state, which combination (MPO.expect and @ uninterpreted); get_extended_site_index -- the centre "
            "declared for the dark-atom padded state is the position of the old centre's atom in the register "
            "(well-prepared, with exactly that many well-prepared atoms before it).  On return of every reader "
            "the declared centre is truthful (Canon), the bonds are consistent, nothing was discarded and the list "
            "still represents the same state (gauge moves only)."),
        not_decided=[
            "the numerical formulas themselves (that contracting op with the centre tensor gives <op>, the transfer "
            "recursion of the correlation matrix, entropy from the singular values): trusted linear-algebra links, "
            "checked only natively against dense definitions (replay/c13_mps.py)",
            "the normalisation in fill_results IS decided: every due observable receives coeff * state with coeff * |state| == 1, "
            "or the padding built from that state's factors (fill_results[no filter] / [filter])",
            "extended_mps_factors / extended_mpo_factors (list building over a symbolic mask): verified under C25; "
            "that their inserted |0> factors are orthonormal both ways, so that Canon carries over to the padded "
            "state with the centre given by get_extended_site_index",
            "MPO.expect / MPO.__matmul__ (full contraction, zip-up): uninterpreted here",
            "fidelity (MPS.overlap / inner), expectation of user operators beyond expect_batch, the normalisation "
            "1/norm() * state in fill_results (scalar * keeps the centre: C10 MPS.__rmul__)",
            "floating point",
        ],
        trusted=[
            "the factor-list model of C10 (contracts/mps_canon.py) with its assumed contracts of torch.linalg.qr, "
            "torch.tensordot, Tensor.view/.mT/.conj (A3/A4) and the contract of MPS.orthogonalize (proved in C10)",
            "linear algebra (not mechanised): for a state whose factors left of site i are left-orthonormal and right "
            "of it right-orthonormal, <op_i> = tr(op . sum_{a,b} conj(C)[a,.,b] C[a,.,b]) with C the centre tensor; "
            "QR of C viewed (left*phys | right) and carrying R into the next factor gives the centre tensor at the "
            "next site of another canonical gauge of the same state (mirror image to the left); <op_i op_j> is the "
            "transfer of the environment started at i (identity to its left) through i+1..j closed with op at j and "
            "a trace (identity to its right); the singular values of C viewed (left*phys | right) are the Schmidt "
            "coefficients of the cut after site i",
            "torch.linalg.svdvals, torch.special.entr, torch.sum, Tensor.trace/.item as documented (A4)",
            "complex numbers stored by a reader are one abstract real each (dtype not tracked)",
        ],
    )


# negative controls of the Engine-A part (thorough tier): (name, file, old text, new text)
CONTROLS_A = [
    ('expect_batch reads site q+1 before carrying the centre there', 'emu_mps/mps.py',
     '                center_factor = torch.tensordot(\n                    r, self.factors[qubit_index + 1].to(r.device), dims=1\n                )',
     '                center_factor = self.factors[qubit_index + 1]'),
    ('expect_batch stores the left sweep at index q+1', 'emu_mps/mps.py',
     '            result[qubit_index] = torch.tensordot(\n                single_qubit_operators.to(temp.device), temp, dims=2\n            )\n\n        return result',
     '            result[qubit_index + 1] = torch.tensordot(\n                single_qubit_operators.to(temp.device), temp, dims=2\n            )\n\n        return result'),
    ('correlation matrix orthogonalises on the wrong site', 'emu_mps/mps.py',
     '            self.orthogonalize(left)\n            accumulator', '            self.orthogonalize(0)\n            accumulator'),
    ('correlation matrix written transposed-and-shifted', 'emu_mps/mps.py',
     'result[right, left] = result[left, right]', 'result[right - 1, left] = result[left, right]'),
    ('entropy read at a bond while the centre is elsewhere', 'emu_mps/mps.py',
     '        self.orthogonalize(mps_site)\n\n        # perform svd', '        self.orthogonalize(0)\n\n        # perform svd'),
    ('entropy reads the singular values of site 0 instead of the centre', 'emu_mps/mps.py',
     'matrix = self.factors[mps_site].flatten(end_dim=1)', 'matrix = self.factors[0].flatten(end_dim=1)'),
    ('occupation measures level 0', 'emu_mps/custom_callback_implementations.py',
     'op[0, 1, 1] = 1.0', 'op[0, 0, 0] = 1.0'),
    ('variance forgets the square', 'emu_mps/custom_callback_implementations.py',
     'en_var = h_2 - h**2', 'en_var = h_2 - h'),
    ('extended centre index counts dark atoms too', 'emu_mps/utils.py',
     '        if boolean_value:\n            index += 1\n            if index == desired_index:',
     '        if True:\n            index += 1\n            if index == desired_index:'),
]


def _engine_b_child(tier, seed, repo_root):
    try:
        rc = _engineb.run(SPEC, tier, seed, repo_root)
    except Exception:
        import traceback
        traceback.print_exc()
        rc = 3
    sys.stdout.flush()
    sys.stderr.flush()
    os._exit(rc)


def run_custom(tier, seed, repo_root, relock=False):
    from pyvc import runner
    t0 = time.time()
    a_only = bool(os.environ.get("PYVC_ENGINE_A_ONLY"))
    proc = None
    if not a_only:
        # Engine B in a forked child (it mostly waits for its driver), Engine A meanwhile in this process
        sys.stdout.flush()
        proc = mp.get_context("fork").Process(target=_engine_b_child, args=(tier, seed, repo_root))
        proc.start()
    rc_a, ev_a = runner.run_engine_a(ID, tier, seed, repo_root, relock)
    rc_b = 0
    if proc is not None:
        proc.join()
        rc_b = proc.exitcode if proc.exitcode in (0, 1, 2, 3) else 3
    # one evidence file: Engine B's (level "other", bounded) with the Engine-A part under coverage["engine_a"]
    evdir = os.environ.get("PYVC_EVIDENCE_DIR", os.path.join(runner.VERIF, "evidence"))
    path = os.path.join(evdir, f"{ID}.json")
    if proc is not None and ev_a is not None and os.path.exists(path) and not os.environ.get("PYVC_NO_EVIDENCE"):
        with open(path) as f:
            ev = json.load(f)
        if ev.get("property_id") == ID and ev.get("seed") == int(seed) and ev.get("tier") == tier:
            cov_a = dict(ev_a["coverage"])
            cov_a["wall_s"] = ev_a["wall_s"]
            cov_a["violations"] = ev_a["violations"]
            cov_a["assumptions"] = ev_a.get("assumptions", [])
            cov_a["what"] = ("Engine A (pyvc deductive verification, unbounded in sites and bond dimensions) of the "
                             "emu-mps readers; counts below are proof obligations, separate from the bounded cases above")
            ev["coverage"]["engine_a"] = cov_a
            ev["violations"] = int(ev.get("violations", 0)) + int(ev_a["violations"])
            ev["wall_s"] = round(time.time() - t0, 2)
            with open(path, "w") as f:
                json.dump(ev, f, indent=1, default=str)
    for rc in (1, 3, 2):
        if rc in (rc_a, rc_b):
            return rc
    return 0
