"""C13 -- emu-sv observable kernels equal their definitions (state vectors, density matrices).

Engine B (symtorch), BOUNDED, level "other".  Only the emu-sv kernels; MPS observables
(QR based), entropy, fidelity and the normalisation in fill_results are not decided here.
"""
from props import _engineb

ID = "C13"
LEVEL = "other"

BOUNDS = ("state-vector kernels: N = 1..3 atoms (thorough: 4), every zero/non-zero phase pattern for N <= 2 "
          "(thorough: N <= 3), 4 patterns above, 2-3 interaction patterns; density-matrix kernels: N = 1..2 "
          "(thorough: 3), with 0 and 1 symbolic jump operator; all values symbolic, states NOT assumed normalised")

CB = "emu_sv/custom_callback_implementations.py"
CONTROLS = [
    dict(name="occupation reads the |g> slice", file=CB,
         old="occupation[i] = torch.linalg.vector_norm(state_tensor[:, 1]) ** 2",
         new="occupation[i] = torch.linalg.vector_norm(state_tensor[:, 0]) ** 2"),
    dict(name="state-vector correlation reads the wrong slice for atom j", file=CB,
         old="select_ij = select_i[:, :, 1, :]", new="select_ij = select_i[:, :, 0, :]"),
    dict(name="density-matrix correlation reads the wrong slice for atom j", file=CB,
         old="state_diag_ni_nj = state_diag_ni.view(*shapeij)[:, :, 1, :]",
         new="state_diag_ni_nj = state_diag_ni.view(*shapeij)[:, :, 0, :]"),
    dict(name="variance subtracts E instead of E^2", file=CB,
         old="en_var: torch.Tensor = h_squared - energy**2", new="en_var: torch.Tensor = h_squared - energy"),
    dict(name="RydbergHamiltonian.expect returns <H psi|H psi>", file="emu_sv/hamiltonian.py",
         old="en = torch.vdot(state.data, self * state.data)", new="en = torch.vdot(self * state.data, self * state.data)"),
    dict(name="RydbergLindbladian.expect returns minus the energy", file="emu_sv/lindblad_operator.py",
         old="return en.real", new="return -en.real"),
]
QUICK_CONTROLS = ["occupation reads the |g> slice", "variance subtracts E instead of E^2"]

SPEC = dict(
    id=ID, bounds=BOUNDS,
    explanation=(
        "BOUNDED symbolic execution of the real modules (Engine B, /verif/symtorch). The unmodified kernels of "
        "emu_sv/custom_callback_implementations.py (qubit_occupation_sv(_den_mat)_impl, "
        "correlation_matrix_sv(_den_mat)_impl, energy_variance_sv(_den_mat)_impl, energy_second_moment_sv_impl, "
        "energy_second_moment_den_mat_impl) and RydbergHamiltonian.expect / RydbergLindbladian.expect / h_eff (what "
        "pulser's Energy observable calls) run on a symbolic, NOT normalised state vector psi or a symbolic Hermitian "
        "rho, with symbolic drive parameters, and are compared as exact polynomial identities (modulo c^2+s^2=1 and "
        "r^2=P for norms) with the definitions <psi|n_i|psi>, <psi|n_i n_j|psi>, <psi|H|psi>, <psi|H^2|psi>, "
        "<H^2>-<H>^2, Tr(rho n_i), Tr(rho n_i n_j), Tr(H rho), Tr(H^2 rho), Tr(H^2 rho)-Tr(H rho)^2, H being the dense "
        "Rydberg Hamiltonian from Kronecker products. Range clause: each occupation/correlation entry is shown to "
        "be a sub-sum (coefficient 1, squares) of <psi|psi> resp. of the diagonal of rho, hence in [0, 1] once the "
        "state is normalised / rho is positive with unit trace. Bounds: " + BOUNDS + ". NOT decided: MPS observables "
        "(QR/contraction based), entanglement entropy, fidelity, expectation of user operators, variance >= 0, dark-atom "
        "padding, that fill_results normalises before the callbacks (Engine A), N beyond the bounds (property: 8), "
        "floating-point rounding."),
    controls=CONTROLS, quick_controls=QUICK_CONTROLS, exhaustive=False,
    min_cases=dict(quick=40, thorough=80),
    assumptions=[
        "A1: float64/complex128 arithmetic is read as exact arithmetic",
        "A3: torch op semantics as implemented in /verif/symtorch/torch (differential self-test in the thorough tier)",
        "vector_norm is a root variable with r^2 = sum |x_k|^2 (sound for the identities checked, which only use r^2)",
        "allclose(imag, 0) in expect() is read exactly: the imaginary part must be the zero polynomial",
        "rho is Hermitian (symbolically: real diagonal, conjugate off-diagonal pairs); drive values real",
        "the callbacks ignore `self` and `config` (passed as None)",
    ],
    trusted=[
        "/verif/symtorch/poly.py normal form (incl. root variables)", "/verif/symtorch/torch shim",
        "/verif/symtorch/harness/symharness/{core,c06,c13}.py (dense definitions, comparison)",
        "NumPy 2.x object-array semantics; CPython 3.11", "pulser is stubbed",
    ],
)


def build(reg):
    return {}


def run_custom(tier, seed, repo_root, relock=False):
    return _engineb.run(SPEC, tier, seed, repo_root)
