"""C27 -- a loadable autosave always survives a crash during autosaving."""
from contracts import autosave

ID = "C27"
LEVEL = "proof"
REPLAY = "replay/c27.py"


def build(reg):
    autosave.register(reg, "C27")
    return dict(
        targets=[f"{autosave.IMPL}:MPSBackendImpl.save_simulation"],
        not_decided=["power-loss durability (fsync of file and directory): the ghost file system is the "
                     "process-crash model of POSIX rename/replace/remove, not a disk model"],
        trusted=["POSIX: os.rename/os.replace within one directory replace the target atomically; a file "
                 "opened for writing is complete once closed after pickle.dump returned",
                 "pickle.load of a complete snapshot succeeds (pickle round trip, A4)"],
    )


# negative controls (thorough tier): (name, file, old text, new text)
CONTROLS = [('rename the old snapshot away first (the repaired defect)',
  'emu_mps/mps_backend_impl.py',
  '        os.replace(basename.with_suffix(".new"), basename)',
  '        if basename.is_file():\n'
  '            os.rename(basename, basename.with_suffix(".bak"))\n'
  '        os.rename(basename.with_suffix(".new"), basename)'),
 ('write the snapshot directly under the advertised name',
  'emu_mps/mps_backend_impl.py',
  'with open(basename.with_suffix(".new"), "wb") as file_handle:',
  'with open(basename, "wb") as file_handle:')]
