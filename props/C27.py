"""C27 -- a loadable autosave always survives a crash during autosaving."""
from contracts import autosave

ID = "C27"
LEVEL = "proof"
REPLAY = "replay/c27.py"


def build(reg):
    autosave.register(reg, "C27")
    return dict(
        targets=[f"{autosave.IMPL}:MPSBackendImpl.save_simulation"],
        not_decided=["power-loss durability (fsync of file and directory): the ghost file system is the "
                     "process-crash model of POSIX rename/replace/remove, not a disk model"],
        trusted=["POSIX: os.rename/os.replace within one directory replace the target atomically; a file "
                 "opened for writing is complete once closed after pickle.dump returned",
                 "pickle.load of a complete snapshot succeeds (pickle round trip, A4)"],
    )
