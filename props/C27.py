"""C27 -- a loadable autosave always survives a crash during autosaving."""
from contracts import autosave

ID = "C27"
LEVEL = "proof"
REPLAY = "replay/c27.py"
# bounded complement to the proof (pyvc/runner.py _start_native_side_check): the native falsifier also runs when all
# obligations discharge -- floats are reals in the proofs (A1) and only the functions under contract are covered
NATIVE_SIDE_CHECK = {"quick": True, "thorough": True}



def build(reg):
    autosave.register(reg, "C27")
    return dict(
        targets=[f"{autosave.IMPL}:MPSBackendImpl.save_simulation",
                 "emu_mps.mps_backend:MPSBackend.resume[after a crash]"],
        explanation="Writer: after EVERY file-system effect of save_simulation (each is a crash point) the advertised "
                    "file holds a complete snapshot. Reader: from any directory state the writer can leave behind "
                    "(advertised file complete, .new/.bak absent, truncated or complete) MPSBackend.resume loads a complete "
                    "snapshot from the advertised file and every file-system effect it performs before continuing the run "
                    "keeps the advertised file complete.",
        not_decided=["power-loss durability (fsync of file and directory): the ghost file system is the "
                     "process-crash model of POSIX rename/replace/remove, not a disk model"],
        trusted=["POSIX: os.rename/os.replace within one directory replace the target atomically; a file "
                 "opened for writing is complete once closed after pickle.dump returned",
                 "pickle.load of a complete snapshot succeeds (pickle round trip, A4)"],
    )


# negative controls (thorough tier): (name, file, old text, new text)
CONTROLS = [('resume finishes an interrupted autosave by renaming a non-empty .new over the advertised file',
  'emu_mps/mps_backend.py',
  '        if not autosave_file.is_file():\n            raise ValueError(f"Not a file: {autosave_file}")',
  '        pending = autosave_file.with_suffix(".new")\n'
  '        if pending.is_file() and pending.stat().st_size > 0:\n'
  '            os.replace(pending, autosave_file)\n'
  '        if not autosave_file.is_file():\n            raise ValueError(f"Not a file: {autosave_file}")'),
 ('rename the old snapshot away first (the repaired defect)',
  'emu_mps/mps_backend_impl.py',
  '        os.replace(basename.with_suffix(".new"), basename)',
  '        if basename.is_file():\n'
  '            os.rename(basename, basename.with_suffix(".bak"))\n'
  '        os.rename(basename.with_suffix(".new"), basename)'),
 ('write the snapshot directly under the advertised name',
  'emu_mps/mps_backend_impl.py',
  'with open(basename.with_suffix(".new"), "wb") as file_handle:',
  'with open(basename, "wb") as file_handle:')]
