"""C33 -- configuration safeguards are always applied."""
from contracts import config, runs

ID = "C33"
LEVEL = "proof"
REPLAY = "replay/c33.py"
# bounded complement to the proof (pyvc/runner.py _start_native_side_check): floats are reals in the proofs (A1), so
# float-only values (NaN, infinities, the neighbours of the floors) are only seen natively
NATIVE_SIDE_CHECK = {"quick": True, "thorough": True}


def build(reg):
    config.register(reg, "C33")
    runs.register(reg, "C33")
    return dict(
        targets=[f"{config.CFG}:MPSConfig.__init__", f"{config.CFG}:MPSConfig.__init__[autosave_dt=inf]",
                 f"{config.CFG}:MPSConfig.__init__[backend_options dict]",
                 f"{config.CFG}:MPSConfig.check_permutable_observables",
                 f"{config.IMPL}:DMRGBackendImpl.__init__", f"{config.IMPL}:create_impl",
                 "emu_mps.mps_backend:MPSBackend.run"],
        not_decided=[],
        trusted=["pulser EmulationConfig.__init__ stores every keyword option in _backend_options and serves "
                 "attribute reads from it (A5)",
                 "MPSConfig.monkeypatch_observables keeps every observable's _base_tag",
                 "Lindblad operators exist only if the noise model has noise types (PulserData, A4)"],
    )


# negative controls (thorough tier): (name, file, old text, new text)
CONTROLS = [('autosave floor off by the boundary',
  'emu_mps/mps_config.py',
  'self.autosave_dt > MIN_AUTOSAVE_DT',
  'self.autosave_dt >= MIN_AUTOSAVE_DT'),
 ('Krylov floor a decade lower',
  'emu_mps/mps_config.py',
  'MIN_KRYLOV_TOL = 1.0e-12',
  'MIN_KRYLOV_TOL = 1.0e-13'),
 ('reordering switch ignores the observables',
  'emu_mps/mps_config.py',
  '] &= self.check_permutable_observables()',
  '] &= True'),
 ('DMRG checks the configured instead of the used noise model',
  'emu_mps/mps_backend.py',
  'and pulser_data.noise_model.noise_types != ()',
  'and self._config.noise_model.noise_types != ()'),
 ('noisy TDVP before DMRG (the repaired defect)',
  'emu_mps/mps_backend_impl.py',
  '    if config.solver == Solver.DMRG:\n'
  '        return DMRGBackendImpl(config, data)\n'
  '    if data.lindblad_ops:\n'
  '        return NoisyMPSBackendImpl(config, data)',
  '    if data.lindblad_ops:\n'
  '        return NoisyMPSBackendImpl(config, data)\n'
  '    if config.solver == Solver.DMRG:\n'
  '        return DMRGBackendImpl(config, data)')]
