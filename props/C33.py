"""C33 -- configuration safeguards are always applied."""
from contracts import config, runs

ID = "C33"
LEVEL = "proof"
REPLAY = "replay/c33.py"


def build(reg):
    config.register(reg, "C33")
    runs.register(reg, "C33")
    return dict(
        targets=[f"{config.CFG}:MPSConfig.__init__", f"{config.CFG}:MPSConfig.__init__[autosave_dt=inf]",
                 f"{config.CFG}:MPSConfig.__init__[backend_options dict]",
                 f"{config.CFG}:MPSConfig.check_permutable_observables",
                 f"{config.IMPL}:DMRGBackendImpl.__init__", f"{config.IMPL}:create_impl",
                 "emu_mps.mps_backend:MPSBackend.run"],
        not_decided=[],
        trusted=["pulser EmulationConfig.__init__ stores every keyword option in _backend_options and serves "
                 "attribute reads from it (A5)",
                 "MPSConfig.monkeypatch_observables keeps every observable's _base_tag",
                 "Lindblad operators exist only if the noise model has noise types (PulserData, A4)"],
    )
