"""C15 -- Sampled bitstrings: total count, key length, bit encoding, per-bit readout flips
(the counting / encoding clauses; the distribution itself is statistics and not decided)."""
from contracts import mps_readers, sampling

ID = "C15"
LEVEL = "proof"
REPLAY = "replay/c15.py"
# bounded complement to the proof (pyvc/runner.py _start_native_side_check): the native falsifier also runs when all
# obligations discharge -- floats are reals in the proofs (A1) and only the functions under contract are covered
NATIVE_SIDE_CHECK = {"quick": True, "thorough": True}



def build(reg):
    targets = sampling.register(reg, "C15")
    # the conditional sweep of MPS.sample on the factor-list model of C10 (centre at 0 before the sweep,
    # sites absorbed left to right once, branch kept = outcome drawn at that site, state unchanged on return)
    targets = targets + mps_readers.register_c15(reg, "C15")
    return dict(
        targets=targets,
        not_decided=[
            "that the sampled bitstrings are distributed as the Born-rule probabilities (a statement about "
            "torch.multinomial, the conditional-probability chain of MPS.sample and statistics)",
            "that readout flips occur with probability p_false_pos / p_false_neg and independently per bit "
            "(a statement about random.random; proved instead: one fresh uniform draw r per bit and the bit "
            "flips iff r is below the corresponding rate)",
            "'register's atom order' beyond the position-in-key <-> site / bit correspondence (qubit "
            "permutations are C02/C03/C25)",
        ],
        trusted=[
            "random.random() returns a real in [0, 1); torch.multinomial returns category indices in range",
            "format(i, f'0{n}b'): binary digits, most significant first, zero-padded to width >= n (Python)",
            "StateVector / DensityMatrix hold 2**n_qudits entries (constructor assert); n_qudits = log2 of that",
            "Counter: c[k] += 1 adds one to the total; Counter(list) has one count per list element; "
            "''.join of one-character pieces has one character per piece",
            "linear algebra inside MPS.sample (tensordot, vector_norm, indexing of the accumulator) is opaque in the "
            "counting/encoding contracts; in MPS.sample[sweep] it is abstract (contracts/mps_readers.py): trusted "
            "link -- when every factor right of site q is right-orthonormal, the squared norms of the branches of "
            "(left environment of the outcomes already drawn) x factor q are the joint weights of those outcomes "
            "and outcome k at site q; torch.linalg.qr / tensordot / the factor-list model as in C10",
        ],
    )


# negative controls (thorough tier): (name, file, old text, new text)
CONTROLS = [
    ('sample() skips orthogonalize(0)', 'emu_mps/mps.py',
     '        assert one_state in {None, "r", "1"}\n        self.orthogonalize(0)\n',
     '        assert one_state in {None, "r", "1"}\n'),
    ('sample() sweeps from a centre on the last site', 'emu_mps/mps.py',
     '        assert one_state in {None, "r", "1"}\n        self.orthogonalize(0)\n',
     '        assert one_state in {None, "r", "1"}\n        self.orthogonalize(self.num_sites - 1)\n'),
    ('sample() always continues with the branch of outcome 0', 'emu_mps/mps.py',
     'batched_accumulator = batched_accumulator[rangebatch, outcomes, :]',
     'batched_accumulator = batched_accumulator[rangebatch, outcomes * 0, :]'),
    ('sample() writes site q at string position N-1-q', 'emu_mps/mps.py',
     'batch_outcomes[:, qubit] = outcomes', 'batch_outcomes[:, self.num_sites - 1 - qubit] = outcomes'),
]
