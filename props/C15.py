"""C15 -- Sampled bitstrings: total count, key length, bit encoding, per-bit readout flips
(the counting / encoding clauses; the distribution itself is statistics and not decided)."""
from contracts import sampling

ID = "C15"
LEVEL = "proof"
REPLAY = "replay/c15.py"


def build(reg):
    targets = sampling.register(reg, "C15")
    return dict(
        targets=targets,
        not_decided=[
            "that the sampled bitstrings are distributed as the Born-rule probabilities (a statement about "
            "torch.multinomial, the conditional-probability chain of MPS.sample and statistics)",
            "that readout flips occur with probability p_false_pos / p_false_neg and independently per bit "
            "(a statement about random.random; proved instead: one fresh uniform draw r per bit and the bit "
            "flips iff r is below the corresponding rate)",
            "'register's atom order' beyond the position-in-key <-> site / bit correspondence (qubit "
            "permutations are C02/C03/C25)",
        ],
        trusted=[
            "random.random() returns a real in [0, 1); torch.multinomial returns category indices in range",
            "format(i, f'0{n}b'): binary digits, most significant first, zero-padded to width >= n (Python)",
            "StateVector / DensityMatrix hold 2**n_qudits entries (constructor assert); n_qudits = log2 of that",
            "Counter: c[k] += 1 adds one to the total; Counter(list) has one count per list element; "
            "''.join of one-character pieces has one character per piece",
            "linear algebra inside MPS.sample (tensordot, vector_norm, indexing of the accumulator) is opaque",
        ],
    )
