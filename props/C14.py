"""C14 -- observables are recorded exactly at their requested times."""
from contracts import timegrid

ID = "C14"
LEVEL = "proof"
REPLAY = "replay/c14.py"
# bounded complement to the proof (pyvc/runner.py _start_native_side_check): the native falsifier also runs when all
# obligations discharge -- floats are reals in the proofs (A1) and only the functions under contract are covered
NATIVE_SIDE_CHECK = {"quick": True, "thorough": True}



def extra_checks(tier, seed, repo_root):
    """bounded floating-point side obligation (concrete IEEE execution of the real source)"""
    from contracts import timegrid_fp
    return timegrid_fp.run("C14", tier, repo_root)


def build(reg):
    from contracts import evaltimes
    timegrid.register(reg, "C14")
    protocol = evaltimes.register(reg, "C14")
    return dict(
        targets=timegrid.target_time_keys("C14") + timegrid.extra_targets(reg, "C14") + protocol,
        lemmas=timegrid.LEMMAS,
        not_decided=timegrid.NOT_DECIDED_C14,
        trusted=timegrid.TRUSTED + timegrid.TRUSTED_C14,
        bounded=timegrid.BOUNDED_C14,
        explanation=timegrid.EXPLANATION_C14,
    )
