"""C06 -- emu-sv operators apply exactly the Hamiltonian and Lindbladian they represent.

Engine B (symtorch): the real, unmodified emu_sv/hamiltonian.py, emu_sv/lindblad_operator.py,
emu_base/math/matmul.py and emu_base/jump_lindblad_operators.py:compute_noise_from_lindbladians
are executed on tensors whose entries are symbols; the result is compared, as exact
polynomial identities, with the dense operator built from Kronecker products.
BOUNDED in the number of atoms -- level "other", never "proof".
"""
from props import _engineb

ID = "C06"
LEVEL = "other"
REPLAY = "replay/engineb_beyond.py"      # ./check --replay of a side-check record (tools/replay_one.py)

BOUNDS = ("Hamiltonian: N = 1..4 atoms, every zero/non-zero phase pattern, every interaction sparsity pattern for "
          "N <= 3 and two patterns at N = 4 (thorough: all 64 patterns at N = 4, all 32 phase patterns x {all pairs, "
          "chain, none} at N = 5, 10 cases at N = 6, 3 at N = 7); Lindbladian: N = 1..2 (thorough: N = 3 with all "
          "phase patterns), 0-2 (thorough: 0-3) symbolic 2x2 jump operators, CPU and forced-batched branch, Hermitian "
          "and arbitrary complex matrices; batched 2x2 matmul: batch <= 4 (thorough 16), columns <= 5 (thorough 8)")

CONTROLS = [
    dict(name="sv_ham: upper element uses the unconjugated phase",
         file="emu_sv/hamiltonian.py", old="alpha=c_omega_n.conj(),", new="alpha=c_omega_n,"),
    dict(name="sv_ham: complex path only when ALL phases are non-zero",
         file="emu_sv/hamiltonian.py", old="self.complex = self.phis.any()", new="self.complex = self.phis.all()"),
    dict(name="sv_ham: interaction added on the wrong slice of the diagonal",
         file="emu_sv/hamiltonian.py", old="i_j_fixed = i_fixed[:, :, 1, :]", new="i_j_fixed = i_fixed[:, :, 0, :]"),
    dict(name="lindblad: right multiplication without conjugation (CPU branch)",
         file="emu_sv/lindblad_operator.py", old="density_matrix = local_op.conj() @ density_matrix",
         new="density_matrix = local_op @ density_matrix"),
    dict(name="lindblad: jump term scaled by 1/2",
         file="emu_sv/lindblad_operator.py", old="return H_den_matrix + 1.0j * L_den_matrix_Ldag",
         new="return H_den_matrix + 0.5j * L_den_matrix_Ldag"),
    dict(name="matmul_2x2_with_batched: transposed coefficient (only the batched branch sees it)",
         file="emu_base/math/matmul.py", old="alpha=left[0, 1],", new="alpha=left[1, 0],"),
]
QUICK_CONTROLS = ["sv_ham: complex path only when ALL phases are non-zero",
                  "matmul_2x2_with_batched: transposed coefficient (only the batched branch sees it)"]

SPEC = dict(
    id=ID,
    bounds=BOUNDS,
    explanation=(
        "BOUNDED symbolic execution of the real modules (Engine B, /verif/symtorch). The unmodified "
        "RydbergHamiltonian.__init__/_create_diagonal/__mul__ (real and complex path), RydbergLindbladian."
        "__init__/_create_diagonal/h_eff/__matmul__ (CPU branch and, with the shim flag is_cpu=False, the "
        "matmul_2x2_with_batched branch), matmul_2x2_with_batched and compute_noise_from_lindbladians are imported "
        "from the checked tree and run on tensors whose entries are polynomial symbols: Omega_j, delta_j, "
        "cos/sin(phi_j) with c^2+s^2=1, U_ij, Re/Im of every state-vector / density-matrix / jump-operator entry. "
        "Each output entry is compared as an exact polynomial identity with the dense operator built independently "
        "from Kronecker products in Pulser's convention (H = sum Om/2 (cos phi sx + sin phi sy) - delta n + "
        "sum_{i<j} U n n; i*L(rho) = [H,rho] - i/2 {sum L^dag L, rho} + i sum L rho L^dag on a symbolic Hermitian "
        "rho; Heff rho - (Heff rho)^dag + i sum L rho L^dag on an arbitrary complex rho). So at every explored size "
        "the identity holds for ALL real parameter values, complex vectors, Hermitian matrices and jump operators. "
        "Bounds: " + BOUNDS + ". Data-dependent control flow (phis.any()) is covered by enumerating which phases are "
        "the literal 0. NOT covered: N beyond the bounds (the property quantifies to N = 8), floating-point rounding, "
        "a real GPU (the batched branch is run on the shim with is_cpu forced False), RydbergHamiltonian.expect / "
        "RydbergLindbladian.expect (see C13)."),
    # bounded, sampled complement on real torch: the same harness cases at sizes beyond the symbolic bound, random values
    native_falsifier="replay/engineb_beyond.py",
    controls=CONTROLS,
    quick_controls=QUICK_CONTROLS,
    exhaustive=False,
    min_cases=dict(quick=200, thorough=1400),
    assumptions=[
        "A1: float64/complex128 arithmetic is read as exact real/complex arithmetic (rounding is not modelled)",
        "A3: each torch operation used by the checked functions has the element-wise meaning implemented in "
        "/verif/symtorch/torch (NumPy object arrays); cross-checked op by op against real torch 2.10 in the thorough tier",
        "symbols declared non-zero (present interaction entries, non-zero phases) are truthy in .any(); the zero case "
        "is a separate enumerated pattern",
        "all drive parameters are real numbers stored in float64 or complex128 tensors (as the backends pass them); "
        "interaction matrix symmetric with zero diagonal",
        "the dense specification follows the convention documented in emu_sv/hamiltonian.py and "
        "test/utils_testing/utils_dense_hamiltonians.py (|1> = |r>, atom 0 = most significant bit)",
    ],
    trusted=[
        "/verif/symtorch/poly.py: polynomial normal form over Q[i] modulo c^2+s^2=1 is canonical (equality of dicts "
        "decides identity)",
        "/verif/symtorch/torch: NumPy-backed model of the torch subset (views/strides/in-place aliasing are NumPy's; "
        "view() refuses to copy)",
        "/verif/symtorch/harness/symharness/{core,c06}.py: the dense specification and the comparison",
        "NumPy 2.x object-array semantics; CPython 3.11",
        "pulser is stubbed (never reached by the checked functions)",
    ],
)


def build(reg):
    return {}


def run_custom(tier, seed, repo_root, relock=False):
    return _engineb.run(SPEC, tier, seed, repo_root)
