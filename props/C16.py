"""C16 -- emu-sv open-system runs solve the Lindblad equation (wiring clauses)."""
from contracts import sv_wiring

ID = "C16"
LEVEL = "proof"
REPLAY = "replay/c16.py"
# bounded complement to the proof (pyvc/runner.py _start_native_side_check): the native falsifier also runs when all
# obligations discharge -- floats are reals in the proofs (A1) and only the functions under contract are covered
NATIVE_SIDE_CHECK = {"quick": True, "thorough": True}


NOT_DECIDED = [
    "closeness of krylov_exp's result to exp(A)v (floating-point numerical analysis; C07 decides the flag clauses)",
    "that H x is the dense Hamiltonian times x for all register sizes (C06: bounded in the number of atoms)",
    "agreement with Pulser's reference emulator within the discretisation error (relational, numerical)",
    "trace one and positivity of the density matrix for all inputs (numerical; the native falsifier samples them). "
    "Hermiticity: each Lindblad step returns _hermitian_part(...) of the Krylov result (contract clause, F33)",
]


def build(reg):
    sv_wiring.register(reg, ID)
    T = sv_wiring.TE
    return dict(
        targets=[f"{T}:EvolveStateVector.evolve", f"{T}:EvolveStateVector.forward", f"{T}:EvolveDensityMatrix.apply",
                 f"{sv_wiring.SVIMPL}:SVBackendImpl._evolve_step"]
                + [f"{sv_wiring.SVIMPL}:{l}" for l in sv_wiring.INIT_LABELS],
        not_decided=NOT_DECIDED,
        trusted=["torch.autograd.Function.apply(*args) calls forward(ctx, *args)",
                 "krylov_exp and the operator action H*x / L@x are uninterpreted here (C07, C06)",
                 "the step loop and the per-step dt are C14's obligations",
                 "_hermitian_part(M) is (M + M^dagger)/2: abstract in the wiring contract; the native falsifier checks the "
                 "returned matrices are Hermitian (bounded)",
                 "storage identity: t.clone() is a new tensor, t.to(...) may return t itself, a state constructor stores "
                 "the tensor it is given (emu_sv/state_vector.py, density_matrix_state.py: `.to(dtype, device)`)"],
    )


# negative controls (thorough tier): (name, file, old text, new text)
CONTROLS = [('Lindblad step returns the raw Krylov result (the repaired defect F33)',
  'emu_sv/time_evolution.py',
  'return _hermitian_part(evolved), ham',
  'return evolved, ham'),
 ('evolving state shares storage with the configured initial state',
  'emu_sv/sv_backend_impl.py',
  'config.initial_state.data.clone(), gpu=self.resolved_gpu',
  'config.initial_state.data, gpu=self.resolved_gpu'),
 ('Lindbladian exponentiated as Hermitian',
  'emu_sv/time_evolution.py',
  'is_hermitian=False',
  'is_hermitian=True'),
 ('jump operators not passed on',
  'emu_sv/time_evolution.py',
  '            pulser_lindblads=pulser_lindblads,\n            interaction_matrix=full_interaction_matrix,',
  '            pulser_lindblads=[],\n            interaction_matrix=full_interaction_matrix,')]
