"""C04 -- backends reject what they cannot emulate instead of returning wrong results."""
from contracts import config, drives_c04

ID = "C04"
LEVEL = "proof"
REPLAY = "replay/c33.py"


def build(reg):
    config.register(reg, "C04")
    config.register_pulser_data(reg, "C04")
    drives_c04.register(reg, "C04")
    return dict(
        targets=["emu_sv.sv_backend:SVBackend._run_from_sequence_data",
                 f"{config.JUMP}:get_lindblad_operators[raises]",
                 f"{config.ADAPTER}:PulserData.__init__",
                 f"{config.IMPL}:create_impl", f"{config.IMPL}:DMRGBackendImpl.__init__"] + [
                 f"{config.ADAPTER}:_extract_omega_delta_phi[bases={b}]"
                 for b in ("ground-rydberg+digital", "ground-rydberg+XY", "digital", "")],
        not_decided=["that an accepted sequence is emulated with the right Hamiltonian (that is C05/C06 and the "
                     "drive/matrix wiring of C01/C02)",
                     "emu-sv: rejection of eff_noise operators of the wrong shape is checked only through the "
                     "shape guard of get_lindblad_operators (C24)"],
        trusted=["pulser HamiltonianData.from_sequence returns basis_data.interaction_type as a string",
                 "SequenceData.dim == len(eigenstates) (the real property is inlined)"],
    )


# negative controls (thorough tier): (name, file, old text, new text)
CONTROLS = [('emu-sv accepts XY',
  'emu_sv/sv_backend.py',
  'if sequence_data.hamiltonian_type != HamiltonianType.Rydberg:',
  'if False:'),
 ('emu-sv accepts leakage',
  'emu_sv/sv_backend.py',
  'if sequence_data.dim != 2:',
  'if sequence_data.dim > 3:'),
 ('unknown interaction type falls through to XY',
  'emu_base/pulser_adapter.py',
  '        elif int_type == "XY":',
  '        elif True:'),
 ('two bases accepted',
  'emu_base/pulser_adapter.py',
  'if len(sequence_dict) != 1:',
  'if len(sequence_dict) < 1:')]
