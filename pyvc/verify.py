"""Verification of one function against its contract (all paths, all obligations)."""
from __future__ import annotations

import ast
import os
import time
import traceback

import z3

from . import ops
from .interp import Frame, Interp, RaiseSig, ReturnSig
from .paths import Obligation, PathEnd, explore
from .registry import Contract, Registry, parse_expr
from .repo import Repo, TargetNotFound
from .values import ForallV, FuncRef, SymObj, Unsupported


class FunctionReport:
    def __init__(self, target, label):
        self.target = target
        self.label = label
        self.obligations: list[Obligation] = []
        self.paths = 0
        self.error = None            # Unsupported / TargetNotFound text -> undecided
        self.crash = None            # checker crash text
        self.span = None
        self.file = None
        self.sha256 = None
        self.wall_s = 0.0
        self.outcomes = {"return": 0, "raise": {}}

    def to_json(self):
        return {"target": self.target, "label": self.label, "paths": self.paths,
                "error": self.error, "crash": self.crash, "span": self.span, "file": self.file,
                "sha256": self.sha256, "wall_s": round(self.wall_s, 3),
                "outcomes": self.outcomes,
                "obligations": [o.to_json() for o in self.obligations]}


def verify_function(reg: Registry, session, c: Contract) -> FunctionReport:
    """Check the real body of c.target against c; callees by their contracts."""
    rep = FunctionReport(c.target, c.short)
    t0 = time.time()
    try:
        mod, node = reg.repo.find(c.target)
        qual = c.target.split(":")[1]
        rep.span = list(mod.span(qual))
        rep.file = mod.path
        rep.sha256 = mod.sha256
        fref = FuncRef(mod, qual, node)
        interp = Interp(reg.repo, session, reg)
        label = f"{c.property or ''}/{c.short}".lstrip("/")

        def run_path(ctx):
            interp.ctx = ctx
            reg.active_policies = dict(c.policies)
            reg.active_policies[c.target] = "inline"
            reg.active_loops = {c.target: c.loops}
            _run_one(reg, interp, c, fref, rep)

        obs, npaths = explore(session, label, run_path, c.max_paths)
        rep.obligations = obs
        rep.paths = npaths
        if c.derived:
            def run_derived(ctx):
                interp.ctx = ctx
                _run_derived(reg, interp, c, fref)
            obs2, n2 = explore(session, label, run_derived, c.max_paths)
            rep.obligations = obs + obs2
            rep.paths += n2
    except (Unsupported, TargetNotFound) as e:
        rep.error = f"{type(e).__name__}: {e}"
    except (AttributeError, TypeError, KeyError, IndexError, NotImplementedError) as e:
        # the code under check uses a construct on a model value (abstract vector, opaque result, ...) that the
        # engine has no meaning for: the function is outside the verified subset -> undecided, not a checker crash
        tb = traceback.extract_tb(e.__traceback__)
        where = f"{os.path.basename(tb[-1].filename)}:{tb[-1].lineno}" if tb else "?"
        rep.error = f"Unsupported: the engine cannot interpret this code ({type(e).__name__}: {e} at {where})"
    except Exception:
        rep.crash = traceback.format_exc()
    finally:
        reg.active_policies = {}
        reg.active_loops = {}
    rep.wall_s = time.time() - t0
    return rep


def _run_one(reg: Registry, I: Interp, c: Contract, fref: FuncRef, rep: FunctionReport):
    ctx = I.ctx
    node = fref.node
    env: dict = {}
    a = node.args
    names = [p.arg for p in list(a.posonlyargs) + list(a.args) + list(a.kwonlyargs)]
    if a.vararg:
        names.append(a.vararg.arg)
    if a.kwarg:
        names.append(a.kwarg.arg)
    for nm in names:
        if nm not in c.params:
            raise Unsupported(f"contract {c.target}: no type for parameter {nm!r}")
    for nm, ty in c.params.items():
        env[nm] = reg.make_value(I, ty, nm, env)
    fr = I.new_frame(fref)
    fr.loop_specs = c.loops
    for nm in names:
        fr.locals[nm] = env[nm]
    if fr.cls is not None and names and names[0] == "self":
        fr.self_obj = env["self"]
    ghost_env = {k: v for k, v in env.items() if k not in names}
    cfr = reg.contract_frame(I, fref.module, f"{c.short}", dict(env), None)
    if c.setup:
        c.setup(I, cfr)
        env.update(cfr.locals)
        for nm in names:
            fr.locals[nm] = env[nm]
    gfr = Frame(fref.module, c.short + "<ghost>", closure=fref.closure)
    gfr.locals.update({k: v for k, v in env.items() if k not in names})
    fr.closure = gfr
    for src in c.requires:
        reg.assume_clause(I, reg.eval_clause(I, src, cfr))
    if ctx._check() == z3.unsat:
        # contradictory precondition: vacuity -> reported as an obligation that fails
        ctx.obligations.append(Obligation(f"{ctx.func_label}/requires-satisfiable", "vacuity",
                                          "failed", note="precondition is unsatisfiable"))
        raise PathEnd()
    old_env = reg.snapshot(dict(cfr.locals))
    # keep the old environment reachable for loop invariants inside the body
    o = Frame(fref.module, c.short + "<old>")
    o.locals.update(old_env)
    o.in_contract_expr = True
    fr.old_env = o
    fr.locals.update(ghost_env_filter(ghost_env, names))
    ylog = None
    if "yield_ensures" in c.extra:
        # generator under contract: ghost log of the yields (count is symbolic, so loops can
        # carry invariants about it); every yield site proves the per-item clauses
        ylog = YieldLog(reg, c, fref, gfr)
        fr.yields = ylog
        fr.locals["__yields__"] = ylog.obj
    try:
        result = I.exec_function(fref, [], {}, frame=fr)
        outcome = None
    except RaiseSig as r:
        outcome = r
        result = None
    reg.hooks["last_frame"] = fr
    post_env = dict(cfr.locals)
    for nm in names:
        post_env[nm] = env[nm]          # parameters keep their entry binding (object identity)
    post_env["result"] = result
    if ylog is not None:
        post_env["__yields__"] = ylog.obj
    pfr = reg.contract_frame(I, fref.module, c.short, post_env, old_env)
    pfr.locals["__frame__"] = fr          # ghost definitions may refer to the code's locals
    if c.post_setup:
        c.post_setup(I, pfr)
    if outcome is None:
        rep.outcomes["return"] += 1
        for k, src in enumerate(c.ensures):
            nm = c.ensures_names[k] if c.ensures_names else f"post#{k}"
            reg.prove_clause(I, nm, reg.eval_clause(I, src, pfr), "post", pfr)
        for exc, cond in c.raises_when.items():
            ofr = reg.contract_frame(I, fref.module, c.short, old_env, old_env)
            v = reg.eval_clause(I, cond, ofr)
            reg.prove_clause(I, f"must-raise:{exc}", ops.b_not(v), "raises", ofr)
        # torch semantics: tensor divisions never raise; where a property needs every evaluated
        # denominator to be non-zero (finite values and gradients) it is asked for here, for an
        # arbitrary element of the named result tensors
        for src in c.extra.get("denominators", []):
            t = I.eval(parse_expr(src), pfr)
            idx = []
            for d, size in enumerate(t.shape):
                k = ctx.fresh(f"e{d}", "int")
                ctx.assume(z3.And(k >= 0, k < (size if not isinstance(size, int) else z3.IntVal(size))))
                I.saw_index(k)
                idx.append(k)
            ctx.ghost["tensor_denominators"] = []
            t.fn(*idx)
            seen = set()
            n = 0
            for guard, den in ctx.ghost["tensor_denominators"]:
                key = str(guard) + "|" + str(den)
                if key in seen or not hasattr(den, "sort"):
                    continue
                seen.add(key)
                ctx.prove(f"denominator-nonzero[{src}]#{n}", ops.b_implies(guard, den != 0), "safety")
                n += 1
            if n == 0:
                ctx.prove(f"denominator-nonzero[{src}]#none", True, "safety")
    else:
        exc = outcome.exc
        rep.outcomes["raise"][exc] = rep.outcomes["raise"].get(exc, 0) + 1
        ofr = reg.contract_frame(I, fref.module, c.short, old_env, old_env)
        ctx.cur_line = outcome.lineno
        if exc in c.raises or exc in c.raises_when:
            cond = c.raises.get(exc, c.raises_when.get(exc))
            v = True if cond is None else reg.eval_clause(I, cond, ofr)
            reg.prove_clause(I, f"raise-allowed:{exc}", v, "raises", ofr)
        else:
            reg.prove_clause(I, f"no-raise:{exc}", False, "raises", ofr)


def _run_derived(reg: Registry, I: Interp, c: Contract, fref: FuncRef):
    """Derived clauses: consequences of requires + (code-verified) ensures alone.  Proved in a
    clean context: symbolic parameters, an arbitrary result, the requires and the ensures as
    hypotheses -- no code terms.  Sound because every hypothesis is a requires or a clause that
    the code has been verified against."""
    ctx = I.ctx
    env: dict = {}
    for nm, ty in c.params.items():
        env[nm] = reg.make_value(I, ty, nm, env)
    cfr = reg.contract_frame(I, fref.module, c.short, dict(env), None)
    if c.setup:
        c.setup(I, cfr)
    env = dict(cfr.locals)
    old_env = reg.snapshot(env)
    if c.modifies:
        raise Unsupported("derived clauses for a contract with a modifies frame")
    result = reg.make_value(I, c.returns, "result", env) if c.returns is not None else None
    env["result"] = result
    pfr = reg.contract_frame(I, fref.module, c.short, env, old_env)
    pfr.locals["__derived__"] = True
    if c.post_setup:
        c.post_setup(I, pfr)
    for src in c.requires:
        reg.assume_clause(I, reg.eval_clause(I, src, pfr))
    for src in c.ensures:
        reg.assume_clause(I, reg.eval_clause(I, src, pfr))
    if _check_with_watchdog(ctx) == z3.unsat:
        ctx.obligations.append(Obligation(f"{ctx.func_label}/derived-hypotheses-satisfiable", "vacuity",
                                          "failed", note="requires + ensures are contradictory"))
        raise PathEnd()
    for k, src in enumerate(c.derived):
        reg.prove_clause(I, f"derived#{k}", reg.eval_clause(I, src, pfr), "derived", pfr)


def _check_with_watchdog(ctx, nominal_s=40):
    """The satisfiability check of (requires + ensures) is a model SEARCH over non-linear real arithmetic; z3's nla
    core can spend minutes in bignum arithmetic there without consuming rlimit or honouring its timeout.  It runs in a
    forked child that is killed after a wall-clock limit; no answer = unknown (the guard only ever acts on `unsat`)."""
    import os
    import select
    import signal
    from .budget import load_factor
    r, w = os.pipe()
    pid = os.fork()
    if pid == 0:
        code = b"?"
        try:
            os.close(r)
            res = ctx._check()
            code = b"u" if res == z3.unsat else (b"s" if res == z3.sat else b"?")
        except BaseException:      # noqa: BLE001
            pass
        try:
            os.write(w, code)
        finally:
            os._exit(0)
    os.close(w)
    try:
        ready, _, _ = select.select([r], [], [], nominal_s * load_factor())
        data = os.read(r, 1) if ready else b""
    finally:
        os.close(r)
        try:
            os.kill(pid, signal.SIGKILL)
        except OSError:
            pass
        os.waitpid(pid, 0)
    return z3.unsat if data == b"u" else (z3.sat if data == b"s" else z3.unknown)


class YieldLog:
    """Ghost log of a generator's yields: `obj.count` (symbolic); each yield proves the contract's
    `yield_ensures` clauses with `item` bound to the yielded value and the generator's locals in
    scope."""

    def __init__(self, reg, c, fref, ghost_frame):
        self.reg, self.c, self.fref, self.gfr = reg, c, fref, ghost_frame
        self.obj = SymObj("YieldLog", None)
        self.obj.fields["count"] = 0
        self.sites = 0

    def append_sym(self, I, v, fr):
        ctx = I.ctx
        cfr = Frame(self.fref.module, self.c.short + "/yield", closure=fr)
        cfr.in_contract_expr = True
        cfr.old_env = fr.old_env
        cfr.locals["item"] = v
        for k, src in enumerate(self.c.extra["yield_ensures"]):
            self.reg.prove_clause(I, f"yield#{k}", self.reg.eval_clause(I, src, cfr), "yield", cfr)
        self.obj.fields["count"] = ops.add(self.obj.fields["count"], 1)
        ctx.log_write(self.obj.oid, "count")

    def __len__(self):
        raise Unsupported("len of a symbolic yield log")


def ghost_env_filter(ghost_env, names):
    return {}


def prove_lemma(reg: Registry, session, label: str, body, property_id: str = ""):
    """A lemma: `body(I, ctx)` builds hypotheses with ctx.assume and goals with ctx.prove."""
    rep = FunctionReport(f"lemma:{label}", label)
    t0 = time.time()
    try:
        interp = Interp(reg.repo, session, reg)

        def run_path(ctx):
            interp.ctx = ctx
            body(interp, ctx)
        obs, npaths = explore(session, f"{property_id}/lemma:{label}".lstrip("/"), run_path)
        rep.obligations, rep.paths = obs, npaths
    except (Unsupported, TargetNotFound) as e:
        rep.error = f"{type(e).__name__}: {e}"
    except Exception:
        rep.crash = traceback.format_exc()
    rep.wall_s = time.time() - t0
    return rep
