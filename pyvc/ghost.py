"""Ghost (specification-only) functions defined by recursion on a natural number.

`rec_function(I, name, base, step)` gives f with  f(0) = base,  f(t) = step(t-1, f(t-1)) for
t >= 1.  f is an uninterpreted z3 function; each *call* f(t) adds the two defining equations
instantiated at t (one unfolding), which is all that loop-invariant preservation needs and keeps
the verification conditions quantifier-free."""
from __future__ import annotations

import z3

from . import ops
from .values import is_z3, to_z3


def rec_function(I, name, base, step, sort="real", extra_args=0):
    ctx = I.ctx
    store = ctx.ghost.setdefault("rec_functions", {})
    if name in store:
        return store[name]
    rng = {"real": z3.RealSort(), "int": z3.IntSort(), "bool": z3.BoolSort()}[sort]
    f = z3.Function(ctx.fresh_name(name), *([z3.IntSort()] * (1 + extra_args)), rng)
    seen = set()

    def raw(t, *xs):
        return f(to_z3(t), *[to_z3(x) for x in xs])

    def call(I2, t, *xs):
        key = (str(t),) + tuple(str(x) for x in xs)
        if key not in seen:
            seen.add(key)
            c = I2.ctx
            tz = to_z3(t)
            b = base(*xs) if callable(base) else base
            bz = to_z3(b)
            if rng == z3.RealSort() and z3.is_int(bz):
                bz = z3.ToReal(bz)
            c.assume(z3.Implies(tz == 0, raw(tz, *xs) == bz))
            if not (isinstance(t, int) and t == 0):
                prev = raw(tz - 1, *xs)
                sv = to_z3(step(ops.sub(t, 1), prev, *xs))
                if rng == z3.RealSort() and z3.is_int(sv):
                    sv = z3.ToReal(sv)
                c.assume(z3.Implies(tz >= 1, raw(tz, *xs) == sv))
        return raw(t, *xs)
    call.raw = raw
    ctx.ghost.setdefault("rec_by_name", {})[f.name()] = call
    store[name] = call
    return call
