"""Scalar operations on the value domain (Python numbers, Fractions, z3 terms)."""
from __future__ import annotations

import ast
from fractions import Fraction

import z3

from .values import (CplxV, EnumV, Inf, Opaque, OptV, SymObj, Unsupported, is_boolish, is_num,
                     is_z3, to_z3, unify)


def conc(v) -> bool:
    return not is_z3(v)


# -- booleans -----------------------------------------------------------------
def b_not(a):
    if isinstance(a, bool):
        return not a
    return z3.Not(a)


def b_and(*xs):
    out = []
    for x in xs:
        if isinstance(x, bool):
            if not x:
                return False
            continue
        out.append(x)
    if not out:
        return True
    return out[0] if len(out) == 1 else z3.And(*out)


def b_or(*xs):
    out = []
    for x in xs:
        if isinstance(x, bool):
            if x:
                return True
            continue
        out.append(x)
    if not out:
        return False
    return out[0] if len(out) == 1 else z3.Or(*out)


def b_implies(a, b):
    return b_or(b_not(a), b)


def ite(c, a, b):
    if isinstance(c, bool):
        return a if c else b
    if isinstance(a, CplxV) or isinstance(b, CplxV):
        a, b = CplxV.of(a), CplxV.of(b)
        return CplxV(ite(c, a.re, b.re), ite(c, a.im, b.im))
    if is_boolish(a) and is_boolish(b):
        return z3.If(c, to_z3(a), to_z3(b))
    if is_num(a) and is_num(b):
        x, y = unify(a, b)
        return z3.If(c, x, y)
    if (isinstance(a, str) or (is_z3(a) and z3.is_string(a))) and \
            (isinstance(b, str) or (is_z3(b) and z3.is_string(b))):
        return z3.If(c, to_z3(a), to_z3(b))          # '1' if x == 1 else '0'
    raise Unsupported(f"if-then-else over {type(a).__name__}/{type(b).__name__}")


# -- arithmetic ---------------------------------------------------------------
def _isfrac(v):
    return isinstance(v, (int, Fraction)) and not isinstance(v, bool)


def num(v):
    """bools used as numbers"""
    if isinstance(v, bool):
        return int(v)
    if is_z3(v) and z3.is_bool(v):
        return z3.If(v, z3.IntVal(1), z3.IntVal(0))
    return v


def add(a, b):
    if isinstance(a, CplxV) or isinstance(b, CplxV):
        a, b = CplxV.of(a), CplxV.of(b)
        return CplxV(add(a.re, b.re), add(a.im, b.im))
    a, b = num(a), num(b)
    if _isfrac(a) and _isfrac(b):
        return a + b
    if _isfrac(a) and a == 0:
        return b
    if _isfrac(b) and b == 0:
        return a
    x, y = unify(a, b)
    return x + y


def neg(a):
    if isinstance(a, CplxV):
        return CplxV(neg(a.re), neg(a.im))
    a = num(a)
    if _isfrac(a):
        return -a
    if isinstance(a, Inf):
        return Inf(-a.sign)
    return -a


def sub(a, b):
    if isinstance(a, CplxV) or isinstance(b, CplxV):
        a, b = CplxV.of(a), CplxV.of(b)
        return CplxV(sub(a.re, b.re), sub(a.im, b.im))
    a, b = num(a), num(b)
    if _isfrac(a) and _isfrac(b):
        return a - b
    if _isfrac(b) and b == 0:
        return a
    x, y = unify(a, b)
    return x - y


def mul(a, b):
    if isinstance(a, CplxV) or isinstance(b, CplxV):
        a, b = CplxV.of(a), CplxV.of(b)
        return CplxV(sub(mul(a.re, b.re), mul(a.im, b.im)),
                     add(mul(a.re, b.im), mul(a.im, b.re)))
    a, b = num(a), num(b)
    if _isfrac(a) and _isfrac(b):
        return a * b
    if _isfrac(a):
        if a == 0:
            return 0 if not (is_z3(b) and z3.is_real(b)) else Fraction(0)
        if a == 1:
            return b
    if _isfrac(b):
        if b == 0:
            return 0 if not (is_z3(a) and z3.is_real(a)) else Fraction(0)
        if b == 1:
            return a
    x, y = unify(a, b)
    return x * y


def truediv_raw(a, b):
    """a / b assuming b != 0 (the caller has dealt with the zero case)."""
    if isinstance(a, CplxV) or isinstance(b, CplxV):
        a, b = CplxV.of(a), CplxV.of(b)
        den = add(mul(b.re, b.re), mul(b.im, b.im))
        return CplxV(truediv_raw(add(mul(a.re, b.re), mul(a.im, b.im)), den),
                     truediv_raw(sub(mul(a.im, b.re), mul(a.re, b.im)), den))
    a, b = num(a), num(b)
    if _isfrac(a) and _isfrac(b):
        return Fraction(a) / Fraction(b)
    if _isfrac(b) and b == 1:
        x = to_z3(a)
        return z3.ToReal(x) if z3.is_int(x) else x
    x, y = to_z3(a), to_z3(b)
    if z3.is_int(x):
        x = z3.ToReal(x)
    if z3.is_int(y):
        y = z3.ToReal(y)
    return x / y


def floordiv_raw(a, b):
    a, b = num(a), num(b)
    if _isfrac(a) and _isfrac(b):
        return a // b
    x, y = to_z3(a), to_z3(b)
    if z3.is_int(x) and z3.is_int(y):
        return x / y           # z3 int division = floor for positive divisors (checked by caller)
    raise Unsupported("floor division on reals")


def mod_raw(a, b):
    a, b = num(a), num(b)
    if _isfrac(a) and _isfrac(b):
        return a % b
    x, y = to_z3(a), to_z3(b)
    if z3.is_int(x) and z3.is_int(y):
        return x % y
    raise Unsupported("modulo on reals")


def power(a, b):
    if isinstance(b, int) and not isinstance(b, bool) and 0 <= b <= 6:
        r = 1
        for _ in range(b):
            r = mul(r, a)
        return r
    if _isfrac(a) and isinstance(b, int):
        return Fraction(a) ** b
    raise Unsupported(f"power with exponent {b!r}")


def absval(a):
    a = num(a)
    if _isfrac(a):
        return abs(a)
    if isinstance(a, Inf):
        return Inf(1)
    return z3.If(a >= 0, a, -a)


def minimum(a, b):
    a, b = num(a), num(b)
    if _isfrac(a) and _isfrac(b):
        return min(a, b)
    x, y = unify(a, b)
    return z3.If(x <= y, x, y)


def maximum(a, b):
    a, b = num(a), num(b)
    if _isfrac(a) and _isfrac(b):
        return max(a, b)
    x, y = unify(a, b)
    return z3.If(x >= y, x, y)


# -- comparisons --------------------------------------------------------------
def _cmp_inf(op, a, b):
    # comparisons against +-inf
    if isinstance(a, Inf) and isinstance(b, Inf):
        return {ast.Lt: a.sign < b.sign, ast.LtE: a.sign <= b.sign, ast.Gt: a.sign > b.sign,
                ast.GtE: a.sign >= b.sign, ast.Eq: a.sign == b.sign,
                ast.NotEq: a.sign != b.sign}[op]
    if isinstance(a, Inf):
        big = a.sign > 0
        return {ast.Lt: not big, ast.LtE: not big, ast.Gt: big, ast.GtE: big,
                ast.Eq: False, ast.NotEq: True}[op]
    big = b.sign > 0
    return {ast.Lt: big, ast.LtE: big, ast.Gt: not big, ast.GtE: not big,
            ast.Eq: False, ast.NotEq: True}[op]


def equal(a, b):
    """Python `==` on the value domain."""
    if isinstance(a, Inf) or isinstance(b, Inf):
        if not (isinstance(a, Inf) or is_num(a)) or not (isinstance(b, Inf) or is_num(b)):
            return False
        return _cmp_inf(ast.Eq, a, b)
    if isinstance(a, OptV) or isinstance(b, OptV):
        if isinstance(a, OptV) and isinstance(b, OptV):
            return b_or(b_and(a.is_none, b.is_none),
                        b_and(b_not(a.is_none), b_not(b.is_none), equal(a.val, b.val)))
        o, x = (a, b) if isinstance(a, OptV) else (b, a)
        if x is None:
            return o.is_none
        return b_and(b_not(o.is_none), equal(o.val, x))
    if a is None or b is None:
        return a is None and b is None
    if isinstance(a, CplxV) or isinstance(b, CplxV):
        a, b = CplxV.of(a), CplxV.of(b)
        return b_and(equal(a.re, b.re), equal(a.im, b.im))
    if isinstance(a, EnumV) or isinstance(b, EnumV):
        if isinstance(a, EnumV) and isinstance(b, EnumV):
            if a.cls != b.cls:
                return False
            return equal(a.member, b.member)
        # str-valued enums (Solver(str, Enum)) compare equal to their value: not modelled
        raise Unsupported("comparison of an enum member with a non-enum value")
    if isinstance(a, str) and isinstance(b, str):
        return a == b
    if (isinstance(a, str) or (is_z3(a) and z3.is_string(a))) and \
            (isinstance(b, str) or (is_z3(b) and z3.is_string(b))):
        return to_z3(a) == to_z3(b)
    if is_boolish(a) and is_boolish(b):
        if isinstance(a, bool) and isinstance(b, bool):
            return a == b
        return to_z3(a) == to_z3(b)
    if (is_num(a) or is_boolish(a)) and (is_num(b) or is_boolish(b)):
        a, b = num(a), num(b)
        if _isfrac(a) and _isfrac(b):
            return a == b
        x, y = unify(a, b)
        return x == y
    if isinstance(a, (tuple, list)) and isinstance(b, (tuple, list)):
        if type(a) is not type(b) or len(a) != len(b):
            return False
        return b_and(*[equal(x, y) for x, y in zip(a, b)])
    if isinstance(a, (SymObj, Opaque)) and isinstance(b, (SymObj, Opaque)):
        if a is b:
            return True
        raise Unsupported("== between distinct objects")
    if isinstance(a, (set, frozenset, dict)) and isinstance(b, (set, frozenset, dict)):
        return a == b
    if type(a) is not type(b) and conc(a) and conc(b):
        # e.g. str vs int
        simple = (str, int, Fraction, tuple, list, type(None))
        if isinstance(a, simple) and isinstance(b, simple):
            return False
    raise Unsupported(f"== between {type(a).__name__} and {type(b).__name__}")


def compare(op, a, b):
    """op is an ast cmpop *type*."""
    if hasattr(a, "compare_hook") or hasattr(b, "compare_hook"):
        # value classes with their own order (e.g. extended reals in contracts/krylov.py)
        return (a if hasattr(a, "compare_hook") else b).compare_hook(op, a, b)
    if op is ast.Eq:
        return equal(a, b)
    if op is ast.NotEq:
        return b_not(equal(a, b))
    if isinstance(a, Inf) or isinstance(b, Inf):
        return _cmp_inf(op, a, b)
    if isinstance(a, OptV) or isinstance(b, OptV):
        raise Unsupported("ordering comparison on an Optional value")
    a, b = num(a), num(b)
    if not (is_num(a) and is_num(b)):
        if isinstance(a, str) and isinstance(b, str):
            return {ast.Lt: a < b, ast.LtE: a <= b, ast.Gt: a > b, ast.GtE: a >= b}[op]
        raise Unsupported(f"ordering between {type(a).__name__} and {type(b).__name__}")
    if _isfrac(a) and _isfrac(b):
        return {ast.Lt: a < b, ast.LtE: a <= b, ast.Gt: a > b, ast.GtE: a >= b}[op]
    x, y = unify(a, b)
    return {ast.Lt: x < y, ast.LtE: x <= y, ast.Gt: x > y, ast.GtE: x >= y}[op]
