"""lambda-tensors: shape (ints or z3 Ints) + element function index-tuple -> scalar term.

The meaning of each operation is torch's documented element-wise meaning (DESIGN A3).
Views are modelled as value copies; writing through a view is *not* modelled and is
rejected where it could be observed (Unsupported).
"""
from __future__ import annotations

import itertools
from fractions import Fraction

import z3

from . import ops
from .values import CplxV, Unsupported, is_z3, to_z3

_tid = itertools.count(1)
GUARDS: list = []        # conditions under which the element currently being evaluated exists


def dim_eq(a, b):
    if isinstance(a, int) and isinstance(b, int):
        return a == b
    return to_z3(a) == to_z3(b)


def is_conc_shape(shape):
    return all(isinstance(s, int) for s in shape)


class LamTensor:
    def __init__(self, shape, fn, dtype="real", name=None):
        self.shape = tuple(shape)
        self.fn = fn
        self.dtype = dtype           # 'real' | 'int' | 'bool' | 'complex'
        self.name = name
        self.tid = next(_tid)
        self.inverse = None          # for index tensors declared to be permutations
        self.facts = []              # callables k -> z3 Bool, instantiated on element reads
        self.requires_grad = False
        self.version = 0             # bumped by every in-place write (see _view_fn)

    @property
    def ndim(self):
        return len(self.shape)

    def at(self, *idx):
        if len(idx) != len(self.shape):
            raise Unsupported(f"tensor of rank {len(self.shape)} indexed with {len(idx)} indices")
        return self.fn(*idx)

    def copy(self):
        t = LamTensor(self.shape, self.fn, self.dtype, self.name)
        t.inverse = self.inverse
        t.facts = list(self.facts)
        return t

    def numel(self):
        n = 1
        for s in self.shape:
            n = ops.mul(n, s)
        return n

    def __repr__(self):
        return f"LamTensor{self.shape}<{self.name or self.tid}>"


# -- constructors -------------------------------------------------------------
def _view_fn(t):
    """element function of a view of t taken now: valid only while t is not written in place"""
    f, ver = t.fn, t.version

    def vf(*i):
        if t.version != ver:
            raise Unsupported("read of a view (slice / .T / unbind) taken before an in-place write to its "
                              "base tensor: aliasing through views is not modelled")
        return f(*i)
    return vf


def const_tensor(shape, value, dtype="real"):
    return LamTensor(shape, lambda *i: value, dtype)


def sym_tensor(name, shape, sort="real"):
    """Uninterpreted input tensor: elements are applications of a fresh z3 function."""
    dom = [z3.IntSort()] * len(shape)
    rng = {"real": z3.RealSort(), "int": z3.IntSort(), "bool": z3.BoolSort()}[sort]
    f = z3.Function(name, *dom, rng)
    if len(shape) == 0:
        c = z3.Const(name, rng)
        return LamTensor((), lambda: c, sort, name)
    return LamTensor(shape, lambda *i: f(*[to_z3(k) for k in i]), sort, name)


def from_nested(data, dtype="real"):
    """Concrete nested python lists of scalar values -> tensor."""
    shape = []
    d = data
    while isinstance(d, (list, tuple)):
        shape.append(len(d))
        d = d[0] if d else None

    def fn(*i):
        if all(isinstance(k, int) for k in i):
            v = data
            for k in i:
                v = v[k]
            return v
        # symbolic index into concrete data: ite chain
        return _select(data, list(i))
    return LamTensor(tuple(shape), fn, dtype)


def _select(data, idx):
    if not idx:
        return data
    k, rest = idx[0], idx[1:]
    if isinstance(k, int):
        return _select(data[k], rest)
    out = _select(data[-1], rest)
    for j in range(len(data) - 2, -1, -1):
        out = ops.ite(to_z3(k) == j, _select(data[j], rest), out)
    return out


def arange(n, start=0):
    return LamTensor((n,), lambda i: ops.add(start, i), "int")


def eye(n, m=None):
    m = n if m is None else m
    return LamTensor((n, m), lambda i, j: _ite_num(_eq(i, j), 1, 0), "real")


def _eq(a, b):
    if isinstance(a, int) and isinstance(b, int):
        return a == b
    return to_z3(a) == to_z3(b)


def _ite_num(c, a, b):
    if isinstance(c, bool):
        return a if c else b
    return ops.ite(c, a, b)


# -- index handling -----------------------------------------------------------
def norm_index(k, size):
    """Negative concrete indices count from the end; symbolic ones are taken as given."""
    if isinstance(k, int) and not isinstance(k, bool):
        if k < 0:
            return ops.add(size, k)
        return k
    return k


def _clamp(v, lo, hi):
    return ops.minimum(ops.maximum(v, lo), hi)


def slice_bounds(sl, size, ctx=None):
    """(start, length) of a unit-step slice of a dimension of `size`.  torch clamps slice bounds
    into [0, size]; with a path context the clamps are dropped when the path condition already
    implies them (keeps shape terms readable and obligations small)."""
    if sl.step not in (None, 1):
        raise Unsupported("slice with a step")
    s = 0 if sl.start is None else norm_index(sl.start, size)
    e = size if sl.stop is None else norm_index(sl.stop, size)
    if isinstance(s, int) and isinstance(e, int) and isinstance(size, int):
        s2 = min(max(s, 0), size)
        e2 = min(max(e, 0), size)
        return s2, max(e2 - s2, 0)
    def clamp(v):
        if ctx is not None and ctx.entails(to_z3(ops.b_and(ops.compare(_GE, v, 0), ops.compare(_LE, v, size)))):
            return v
        return _clamp(v, 0, size)
    s2 = clamp(s)
    e2 = clamp(e)
    ln = ops.sub(e2, s2)
    if not (ctx is not None and ctx.entails(to_z3(ops.compare(_GE, ln, 0)))):
        ln = ops.maximum(ln, 0)
    return _simp(s2), _simp(ln)


def _simp(v):
    if is_z3(v):
        v = z3.simplify(v)
        if z3.is_int_value(v):
            return v.as_long()
    return v


class SliceV:
    def __init__(self, start, stop, step):
        self.start, self.stop, self.step = start, stop, step


def getitem(t: LamTensor, idx, ctx=None):
    if not isinstance(idx, tuple):
        idx = (idx,)
    if any(i is Ellipsis for i in idx):
        raise Unsupported("Ellipsis index")
    # boolean mask of full shape: data-dependent length -> unsupported for reads
    plan = []        # per source dim: ('int', k) | ('slice', start) | ('gather', tensor)
    out_shape = []
    src_dim = 0
    gather_shape = None
    for i in idx:
        if src_dim >= t.ndim:
            raise Unsupported("too many indices for tensor")
        size = t.shape[src_dim]
        if isinstance(i, SliceV):
            st, ln = slice_bounds(i, size, ctx)
            plan.append(("slice", st))
            out_shape.append(ln)
        elif isinstance(i, LamTensor):
            if i.dtype == "bool":
                if MASK_READ_HOOK is None or i.ndim != 1:
                    raise Unsupported("boolean-mask read (data-dependent shape)")
                # additive: contracts may install a model of 1-d mask reads (pyvc/maskidx.py):
                # the mask becomes the int tensor enumerating its True positions in order
                i = MASK_READ_HOOK(i, size, ctx)
            if gather_shape is not None:
                raise Unsupported("more than one index tensor")
            gather_shape = i.shape
            plan.append(("gather", i))
            out_shape.extend(i.shape)
        else:
            plan.append(("int", norm_index(i, size)))
        src_dim += 1
    for d in range(src_dim, t.ndim):
        plan.append(("slice", 0))
        out_shape.append(t.shape[d])

    # basic indexing gives a VIEW in torch; here it is a snapshot.  Reading the snapshot after the
    # base has been written in place would silently differ from torch, so it is refused instead.
    src_fn = _view_fn(t) if gather_shape is None else t.fn

    def fn(*o):
        o = list(o)
        src = []
        for kind, a in plan:
            if kind == "int":
                src.append(a)
            elif kind == "slice":
                src.append(ops.add(a, o.pop(0)))
            else:
                gi = [o.pop(0) for _ in a.shape]
                src.append(a.fn(*gi))
        return src_fn(*src)

    if not out_shape:
        r = LamTensor((), lambda: fn(), t.dtype)
    else:
        r = LamTensor(tuple(out_shape), fn, t.dtype)
    if (t.ndim == 1 and t.inverse is not None and len(plan) == 1 and plan[0][0] == "gather"
            and plan[0][1].ndim == 1 and plan[0][1].inverse is not None):
        # additive: p[o] of two declared permutations carries the witness o^-1[p^-1[.]]
        pinv, oinv = t.inverse, plan[0][1].inverse
        r.inverse = LamTensor(r.shape, lambda k: oinv.fn(pinv.fn(k)), t.dtype)
    return r


MASK_READ_HOOK = None        # set by pyvc.maskidx.install(); None = mask reads are unsupported


def value_at(v, oidx, out_shape):
    """Element of the right-hand side `v` (scalar or tensor broadcast to out_shape)."""
    if isinstance(v, LamTensor):
        if v.ndim == 0:
            return v.fn()
        k = len(out_shape) - v.ndim
        if k < 0:
            raise Unsupported("assigning a tensor of higher rank")
        sub = []
        for d, o in enumerate(oidx[k:]):
            sub.append(0 if (isinstance(v.shape[d], int) and v.shape[d] == 1
                             and not (isinstance(out_shape[k + d], int) and out_shape[k + d] == 1))
                       else o)
        return v.fn(*sub)
    return v


def setitem(t: LamTensor, idx, value, ctx=None):
    """In-place t[idx] = value (rebinding t.fn)."""
    t.version += 1
    # right-hand side and index tensors are read NOW (later writes to them must not leak in)
    if isinstance(value, LamTensor):
        value = value.copy()
    if isinstance(idx, tuple):
        idx = tuple(i.copy() if isinstance(i, LamTensor) else i for i in idx)
    elif isinstance(idx, LamTensor):
        idx = idx.copy()
    if not isinstance(idx, tuple):
        idx = (idx,)
    old = t.fn
    if len(idx) == 1 and isinstance(idx[0], LamTensor) and idx[0].dtype == "bool":
        m = idx[0]
        if m.ndim == t.ndim:
            if isinstance(value, LamTensor) and value.ndim > 0:
                raise Unsupported("masked assignment of a non-scalar")
            val = value.fn() if isinstance(value, LamTensor) else value
            t.fn = lambda *i: ops.ite(_as_bool(m.fn(*i)), val, old(*i))
            return
        if m.ndim == 1:
            # rows selected by a 1-d mask
            val_of = value
            def fn(*i):
                v = val_of.fn() if isinstance(val_of, LamTensor) and val_of.ndim == 0 else val_of
                if isinstance(v, LamTensor):
                    raise Unsupported("row-mask assignment of a tensor")
                return ops.ite(_as_bool(m.fn(i[0])), v, old(*i))
            t.fn = fn
            return
    conds = []        # per source dim: function(src index) -> (in_region cond, out index list)
    out_shape = []
    spec = []
    src_dim = 0
    for i in idx:
        size = t.shape[src_dim]
        if isinstance(i, SliceV):
            st, ln = slice_bounds(i, size, ctx)
            spec.append(("slice", st, ln))
            out_shape.append(ln)
        elif isinstance(i, LamTensor):
            if i.dtype == "bool":
                spec.append(("mask", i))
                out_shape.append(None)
            else:
                if i.inverse is None:
                    raise Unsupported("scatter through an index tensor without a declared inverse")
                spec.append(("scatter", i))
                out_shape.extend(i.shape)
        else:
            spec.append(("int", norm_index(i, size)))
        src_dim += 1
    for d in range(src_dim, t.ndim):
        spec.append(("slice", 0, t.shape[d]))
        out_shape.append(t.shape[d])
    if any(s[0] == "mask" for s in spec) and isinstance(value, LamTensor) and value.ndim > 0:
        raise Unsupported("mask assignment of a non-scalar in a multi-index")

    def fn(*src):
        cond = True
        oidx = []
        for (s, k) in zip(spec, src):
            if s[0] == "int":
                cond = ops.b_and(cond, _eq(k, s[1]))
            elif s[0] == "slice":
                st, ln = s[1], s[2]
                rel = ops.sub(k, st)
                c = ops.b_and(ops.compare(_GE, rel, 0), ops.compare(_LT, rel, ln))
                cond = ops.b_and(cond, c)
                oidx.append(rel)
            elif s[0] == "mask":
                cond = ops.b_and(cond, _as_bool(s[1].fn(k)))
                oidx.append(k)
            else:
                it = s[1]
                j = it.inverse.fn(k)
                n = it.shape[0]
                cond = ops.b_and(cond, ops.compare(_GE, j, 0), ops.compare(_LT, j, n),
                                 _eq(it.fn(j), k))
                oidx.append(j)
        if cond is False:
            return old(*src)
        if cond is True:
            return value_at(value, oidx, [o for o in out_shape])
        # the right-hand side exists only for indices inside the assigned region: anything
        # recorded while evaluating it (e.g. denominators) is guarded by the region condition
        GUARDS.append(cond)
        try:
            v = value_at(value, oidx, [o for o in out_shape])
        finally:
            GUARDS.pop()
        return ops.ite(cond, v, old(*src))

    t.fn = fn


import ast as _ast
_GE, _LT, _LE = _ast.GtE, _ast.Lt, _ast.LtE


def _as_bool(v):
    if isinstance(v, bool):
        return v
    if is_z3(v) and z3.is_bool(v):
        return v
    raise Unsupported("mask element is not boolean")


# -- element-wise operations --------------------------------------------------
def broadcast_shapes(a, b, ctx=None, why="broadcast"):
    n = max(len(a), len(b))
    a2 = (1,) * (n - len(a)) + tuple(a)
    b2 = (1,) * (n - len(b)) + tuple(b)
    out = []
    for x, y in zip(a2, b2):
        if isinstance(x, int) and x == 1:
            out.append(y)
        elif isinstance(y, int) and y == 1:
            out.append(x)
        elif isinstance(x, int) and isinstance(y, int):
            if x != y:
                raise Unsupported(f"shape mismatch {a} vs {b}")
            out.append(x)
        else:
            if ctx is not None and not z3.eq(to_z3(x), to_z3(y)):
                ctx.prove(f"shape-match@{ctx.cur_line}", to_z3(x) == to_z3(y), kind="safety")
            out.append(x if isinstance(x, int) else (y if isinstance(y, int) else x))
    return tuple(out), a2, b2


def _bidx(idx, shp_padded, n_out):
    """index tuple of the broadcast result -> index into an operand"""
    k = n_out - len(shp_padded)
    return [0 if (isinstance(s, int) and s == 1) else i for i, s in zip(idx, shp_padded)]


def elementwise(f, a, b, ctx=None, dtype=None):
    """binary element-wise op with broadcasting; a or b may be python/z3 scalars."""
    # results are new tensors (copies): operands' element functions are captured NOW, so a later
    # in-place write to an operand does not change the result
    if not isinstance(a, LamTensor):
        bf0 = b.fn
        return LamTensor(b.shape, lambda *i: f(a, bf0(*i)), dtype or b.dtype)
    if not isinstance(b, LamTensor):
        af0 = a.fn
        return LamTensor(a.shape, lambda *i: f(af0(*i), b), dtype or a.dtype)
    shape, a2, b2 = broadcast_shapes(a.shape, b.shape, ctx)
    na, nb = len(a.shape), len(b.shape)
    n = len(shape)
    af, bf = a.fn, b.fn

    def fn(*i):
        ia = _bidx(i, a2, n)[n - na:]
        ib = _bidx(i, b2, n)[n - nb:]
        return f(af(*ia), bf(*ib))
    dt = dtype or ("complex" if "complex" in (a.dtype, b.dtype) else
                   ("real" if "real" in (a.dtype, b.dtype) else a.dtype))
    return LamTensor(shape, fn, dt)


def unary(f, a, dtype=None):
    af = a.fn
    return LamTensor(a.shape, lambda *i: f(af(*i)), dtype or a.dtype)


def where(c, a, b, ctx=None):
    def pick(cv, x, y):
        return ops.ite(_as_bool(cv), x, y)
    shapes = [x.shape for x in (c, a, b) if isinstance(x, LamTensor)]
    shape = ()
    for s in shapes:
        shape, _, _ = broadcast_shapes(shape, s, ctx)
    n = len(shape)

    fns = {id(x): x.fn for x in (c, a, b) if isinstance(x, LamTensor)}

    def el(x, i):
        if not isinstance(x, LamTensor):
            return x
        pad = (1,) * (n - x.ndim) + x.shape
        return fns[id(x)](*_bidx(i, pad, n)[n - x.ndim:])
    dt = a.dtype if isinstance(a, LamTensor) else (b.dtype if isinstance(b, LamTensor) else "real")
    return LamTensor(shape, lambda *i: pick(el(c, i), el(a, i), el(b, i)), dt)


def stack(ts, dim, ctx=None):
    ts = list(ts)
    if not ts:
        raise Unsupported("stack of nothing")
    base = ts[0].shape
    nd = len(base) + 1
    if dim < 0:
        dim += nd
    shape = base[:dim] + (len(ts),) + base[dim:]
    fns = [t.fn for t in ts]

    def fn(*i):
        k = i[dim]
        rest = list(i[:dim]) + list(i[dim + 1:])
        if isinstance(k, int):
            return fns[k](*rest)
        out = fns[-1](*rest)
        for j in range(len(fns) - 2, -1, -1):
            out = ops.ite(to_z3(k) == j, fns[j](*rest), out)
        return out
    return LamTensor(shape, fn, ts[0].dtype)


def unbind(t, dim):
    if dim < 0:
        dim += t.ndim
    n = t.shape[dim]
    if not isinstance(n, int):
        raise Unsupported("unbind along a symbolic dimension")
    out = []
    tf = _view_fn(t)
    for k in range(n):
        out.append(LamTensor(t.shape[:dim] + t.shape[dim + 1:],
                             (lambda k: lambda *i: tf(*(list(i[:dim]) + [k] + list(i[dim:]))))(k),
                             t.dtype))
    return tuple(out)


def transpose(t):
    if t.ndim != 2:
        raise Unsupported(".T on a tensor that is not 2-d")
    tf = _view_fn(t)
    return LamTensor((t.shape[1], t.shape[0]), lambda i, j: tf(j, i), t.dtype)


def matmul(a, b):
    if a.ndim != 2 or b.ndim != 2:
        raise Unsupported("matmul of non-matrices")
    k = a.shape[1]
    if not isinstance(k, int) or not isinstance(b.shape[0], int) or b.shape[0] != k:
        raise Unsupported("matmul with symbolic inner dimension")

    af, bf = a.fn, b.fn

    def fn(i, j):
        acc = 0
        for r in range(k):
            acc = ops.add(acc, ops.mul(af(i, r), bf(r, j)))
        return acc
    dt = "complex" if "complex" in (a.dtype, b.dtype) else "real"
    return LamTensor((a.shape[0], b.shape[1]), fn, dt)


def conj(t):
    def c(v):
        if isinstance(v, CplxV):
            return CplxV(v.re, ops.neg(v.im))
        return v
    return unary(c, t)


def flip(t, dims):
    dims = [d if d >= 0 else d + t.ndim for d in dims]

    tf = t.fn

    def fn(*i):
        j = list(i)
        for d in dims:
            j[d] = ops.sub(ops.sub(t.shape[d], 1), j[d])
        return tf(*j)
    return LamTensor(t.shape, fn, t.dtype)


def materialize(t):
    """Concrete-shape tensor -> nested python lists of element terms."""
    if not is_conc_shape(t.shape):
        raise Unsupported("materialising a tensor of symbolic shape")

    def rec(prefix, dims):
        if not dims:
            return t.fn(*prefix)
        return [rec(prefix + [k], dims[1:]) for k in range(dims[0])]
    return rec([], list(t.shape))


def freeze(t):
    """Evaluate every element once (concrete shapes): cuts closure chains after in-place edits."""
    data = materialize(t)
    r = from_nested(data, t.dtype) if t.ndim else LamTensor((), lambda: data, t.dtype)
    r.inverse = t.inverse
    return r
