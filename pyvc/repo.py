"""Loading the real source text of /repo (fresh on every run)."""
from __future__ import annotations

import ast
import hashlib
import os

REPO_ROOT = os.environ.get("PYVC_REPO", "/repo")


class TargetNotFound(Exception):
    """A function/class under contract cannot be located (e.g. harmless rename) -> undecided."""


class Module:
    def __init__(self, name: str, path: str):
        self.name = name
        self.path = path
        with open(path, "rb") as f:
            raw = f.read()
        self.sha256 = hashlib.sha256(raw).hexdigest()
        self.text = raw.decode()
        self.tree = ast.parse(self.text, filename=path)
        self.defs: dict[str, ast.AST] = {}      # qualname -> FunctionDef / ClassDef
        self.imports: dict[str, tuple[str, str | None]] = {}   # local name -> (module, attr|None)
        self.assigns: dict[str, ast.expr] = {}   # module-level simple assignments
        self.classes: dict[str, ast.ClassDef] = {}
        self._index()

    def _index(self) -> None:
        for node in self.tree.body:
            self._index_stmt(node)

    def _index_stmt(self, node: ast.stmt) -> None:
        if isinstance(node, (ast.FunctionDef, ast.AsyncFunctionDef)):
            self.defs[node.name] = node
        elif isinstance(node, ast.ClassDef):
            self.defs[node.name] = node
            self.classes[node.name] = node
            for sub in node.body:
                if isinstance(sub, (ast.FunctionDef, ast.AsyncFunctionDef)):
                    self.defs[f"{node.name}.{sub.name}"] = sub
        elif isinstance(node, ast.Import):
            for a in node.names:
                self.imports[a.asname or a.name.split(".")[0]] = (
                    a.name if a.asname else a.name.split(".")[0], None)
        elif isinstance(node, ast.ImportFrom):
            modname = node.module or ""
            if node.level:
                pkg = self.name.split(".")
                if not self.path.endswith("__init__.py"):
                    pkg = pkg[:-1]
                pkg = pkg[:len(pkg) - (node.level - 1)]
                modname = ".".join(pkg + ([node.module] if node.module else []))
            for a in node.names:
                self.imports[a.asname or a.name] = (modname, a.name)
        elif isinstance(node, ast.Assign):
            if len(node.targets) == 1 and isinstance(node.targets[0], ast.Name):
                self.assigns[node.targets[0].id] = node.value
        elif isinstance(node, ast.AnnAssign):
            if isinstance(node.target, ast.Name) and node.value is not None:
                self.assigns[node.target.id] = node.value
        elif isinstance(node, ast.If):
            # e.g. `if unix_like: from resource import ...` -- index both arms
            for sub in node.body + node.orelse:
                self._index_stmt(sub)

    def span(self, qualname: str) -> tuple[int, int]:
        n = self.defs[qualname]
        return (n.lineno, n.end_lineno or n.lineno)

    def source_of(self, qualname: str) -> str:
        return ast.get_source_segment(self.text, self.defs[qualname]) or ""


class Repo:
    def __init__(self, root: str | None = None):
        self.root = root or REPO_ROOT
        self._mods: dict[str, Module] = {}

    def module_path(self, name: str) -> str | None:
        base = os.path.join(self.root, *name.split("."))
        if os.path.isfile(base + ".py"):
            return base + ".py"
        if os.path.isfile(os.path.join(base, "__init__.py")):
            return os.path.join(base, "__init__.py")
        return None

    def has_module(self, name: str) -> bool:
        return self.module_path(name) is not None

    def module(self, name: str) -> Module:
        if name not in self._mods:
            p = self.module_path(name)
            if p is None:
                raise TargetNotFound(f"module {name} not found under {self.root}")
            self._mods[name] = Module(name, p)
        return self._mods[name]

    def find(self, target: str) -> tuple[Module, ast.AST]:
        """target = 'pkg.mod:Qual.name'"""
        modname, qual = target.split(":")
        m = self.module(modname)
        if qual not in m.defs:
            raise TargetNotFound(f"{target}: no such definition in {m.path}")
        return m, m.defs[qual]

    def resolve_import(self, modname: str, attr: str, _depth: int = 0):
        """Follow `from x import y` re-exports inside the repo until a def/class/assign
        is found.  Returns (module, qualname) or None for things outside the repo."""
        if _depth > 8 or not self.has_module(modname):
            return None
        m = self.module(modname)
        if attr in m.defs or attr in m.assigns:
            return (m, attr)
        if attr in m.imports:
            mod2, attr2 = m.imports[attr]
            if attr2 is None:
                return None
            # relative-less absolute import inside the repo
            return self.resolve_import(mod2, attr2, _depth + 1)
        # a sub-module?
        if self.has_module(modname + "." + attr):
            return (self.module(modname + "." + attr), None)
        return None

    def class_mro(self, m: Module, clsname: str) -> list[tuple[Module, ast.ClassDef]]:
        """Repo-local linearisation (single inheritance is all the repo uses)."""
        out = []
        cur: tuple[Module, str] | None = (m, clsname)
        seen = 0
        while cur is not None and seen < 10:
            seen += 1
            mod, name = cur
            cls = mod.classes.get(name)
            if cls is None:
                break
            out.append((mod, cls))
            cur = None
            for b in cls.bases:
                if isinstance(b, ast.Name):
                    if b.id in mod.classes:
                        cur = (mod, b.id)
                        break
                    if b.id in mod.imports:
                        mod2, attr2 = mod.imports[b.id]
                        r = self.resolve_import(mod2, attr2) if attr2 else None
                        if r and r[1] and r[1] in r[0].classes:
                            cur = (r[0], r[1])
                            break
        return out
