"""Solver back ends: z3 first, cvc5 takes z3's unknowns."""
from __future__ import annotations

import os
import shutil
import subprocess
import tempfile
import time

import z3

from .budget import set_budget, wall_ms

from .paths import model_to_dict

CVC5 = shutil.which("cvc5") or "/usr/bin/cvc5"


class Session:
    def __init__(self, timeout_ms: int = 10000, use_cvc5: bool = True, recheck_cvc5: bool = False):
        self.timeout_ms = timeout_ms
        self.use_cvc5 = use_cvc5
        self.recheck_cvc5 = recheck_cvc5       # thorough tier: cvc5 as a second opinion
        self.assumptions: set[str] = set()      # opaque calls, trusted specs used
        self.stats = {"z3": 0, "cvc5": 0, "z3_time": 0.0, "cvc5_time": 0.0,
                      "cvc5_agree": 0, "cvc5_disagree": 0}

    def note(self, text: str) -> None:
        self.assumptions.add(text)

    # ------------------------------------------------------------------
    def _cvc5(self, solver: z3.Solver, neg_goal) -> str:
        smt = "(set-logic ALL)\n" + _smt2(solver, neg_goal)
        fd, path = tempfile.mkstemp(suffix=".smt2", prefix="pyvc_")
        try:
            with os.fdopen(fd, "w") as f:
                f.write(smt)
            t0 = time.time()
            try:
                p = subprocess.run(
                    [CVC5, f"--tlimit={wall_ms(self.timeout_ms) // 2}", "--nl-ext-tplanes", path],
                    capture_output=True, text=True, timeout=wall_ms(self.timeout_ms) / 2000 + 10)
                out = p.stdout.strip().splitlines()
                res = out[0] if out else "unknown"
            except subprocess.TimeoutExpired:
                res = "unknown"
            self.stats["cvc5"] += 1
            self.stats["cvc5_time"] += time.time() - t0
            return res if res in ("sat", "unsat") else "unknown"
        finally:
            try:
                os.remove(path)
            except OSError:
                pass

    def discharge(self, ctx, name, f, excuses=None):
        """Return (status, model, backend, known).  status: discharged|failed|known|unknown."""
        s = ctx.solver
        neg = z3.Not(f)
        s.push()
        try:
            s.add(neg)
            t0 = time.time()
            # portfolio: quick plain z3, then z3 on the non-linear abstraction (lemma-instance
            # style proofs), then plain z3 with the full budget, then nlsat on the
            # Ackermannised problem, then cvc5
            quick = min(1500, self.timeout_ms)
            set_budget(s, quick)
            r = s.check()
            set_budget(s, self.timeout_ms)
            self.stats["z3"] += 1
            self.stats["z3_time"] += time.time() - t0
            backend = "z3"
            hint_model = None
            hints = getattr(ctx, "ghost", {}).get("sat_hints")
            if r == z3.unknown and hints and not getattr(ctx, "quantified", None):
                # Counterexample hints (given by the contract's setup, e.g. a fixed duration that makes the
                # products linear): a model of (path condition, not goal, hints) is a model of (path
                # condition, not goal).  Only a `sat` is used; anything else leaves the result unknown.
                s.push()
                try:
                    s.add(*hints)
                    t1 = time.time()
                    # generous budget: this runs for the few obligations that carry hints only, and a
                    # timeout here would turn a known finding into an undecided run on a loaded machine
                    set_budget(s, max(self.timeout_ms, 120000))
                    rh = s.check()
                    set_budget(s, self.timeout_ms)
                    if rh == z3.sat:
                        hint_model = model_to_dict(s.model())
                        hint_model["__hint__"] = "counter-model found under the contract's search hints " + \
                            ", ".join(str(h) for h in hints)
                    self.stats["z3_time"] += time.time() - t1
                finally:
                    s.pop()
                if hint_model is not None:
                    r = z3.sat
                    backend = "z3(search hints)"
            if r == z3.unknown:
                from .purify import second_chance, third_chance
                t1 = time.time()
                if third_chance(s.assertions(), self.timeout_ms) == "unsat":
                    self.stats["uf_abstraction"] = self.stats.get("uf_abstraction", 0) + 1
                    self.stats["z3_time"] += time.time() - t1
                    return "discharged", None, "z3(nonlinear terms abstracted)", None
                t1 = time.time()
                r = s.check()
                self.stats["z3_time"] += time.time() - t1
            if r == z3.unknown and os.environ.get("PYVC_DUMP"):
                fn = os.path.join(os.environ["PYVC_DUMP"], name.replace("/", "_") + ".smt2")
                with open(fn, "w") as f:
                    f.write(s.to_smt2())
            if r == z3.unknown:
                t1 = time.time()
                if second_chance(s.assertions(), self.timeout_ms) == "unsat":
                    self.stats["nlsat_purified"] = self.stats.get("nlsat_purified", 0) + 1
                    self.stats["z3_time"] += time.time() - t1
                    return "discharged", None, "z3-nlsat(ackermannized)", None
            if r == z3.unknown and self.use_cvc5:
                c = self._cvc5(s, None)
                backend = "cvc5"
                if c == "unsat":
                    return "discharged", None, backend, None
                if c == "sat":
                    return "failed", {"note": "cvc5 reports sat; no model extracted"}, backend, None
                return "unknown", None, "z3+cvc5", None
            if r == z3.unsat:
                if self.recheck_cvc5:
                    c = self._cvc5(s, None)
                    if c == "unsat":
                        self.stats["cvc5_agree"] += 1
                        backend = "z3+cvc5"
                    elif c == "sat":
                        self.stats["cvc5_disagree"] += 1
                        return "unknown", {"note": "z3 unsat but cvc5 sat"}, "z3!=cvc5", None
                return "discharged", None, backend, None
            if r == z3.sat and getattr(ctx, "quantified", None):
                # The universal hypotheses were only instantiated at finitely many terms: a model of
                # those instances is a *candidate* counterexample.  Re-check with the hypotheses as
                # genuine quantifiers; only a model that survives (or an inconclusive re-check)
                # is passed on.
                qs = [q for q in ctx.quantified if q is not None]
                s.push()
                try:
                    for q in qs:
                        s.add(q)
                    t1 = time.time()
                    rq = s.check()
                    self.stats["z3_time"] += time.time() - t1
                    self.stats["quantified_rechecks"] = self.stats.get("quantified_rechecks", 0) + 1
                finally:
                    s.pop()
                if rq == z3.unsat:
                    return "discharged", None, "z3(quantified hypotheses)", None
                if rq == z3.unknown or len(qs) != len(ctx.quantified):
                    # inconclusive: keep the instance-level model as a CANDIDATE counterexample; the
                    # runner reports a violation only if the native replay reproduces it
                    s.check()
                    m = model_to_dict(s.model())
                    m["__candidate__"] = "model of the instantiated hypotheses only; quantified re-check inconclusive"
                    return "failed", m, "z3", None
            if r == z3.sat:
                if getattr(ctx, "quantified", None):
                    s.check()           # restore the model of the instance-level problem
                model = hint_model if hint_model is not None else model_to_dict(s.model())
                if getattr(ctx, "ghost", {}).get("lazy_axioms"):
                    # axioms of symbolic sets / sorted() / universal ghost statements were instantiated
                    # lazily (pyvc/floatsets.py): the model is a CANDIDATE, to be replayed natively
                    model["__candidate__"] = "model of lazily instantiated set axioms: " + \
                        str(ctx.ghost["lazy_axioms"])
                known = None
                if excuses:
                    ids = [e[0] for e in excuses]
                    regions = [e[1] for e in excuses]
                    s.push()
                    try:
                        s.add(z3.Not(z3.Or(*regions)))
                        set_budget(s, max(self.timeout_ms, 120000))
                        r2 = s.check()
                        set_budget(s, self.timeout_ms)
                        if r2 == z3.sat:
                            model = model_to_dict(s.model())
                        if r2 == z3.unknown:
                            from .purify import second_chance, third_chance
                            if third_chance(s.assertions(), max(self.timeout_ms, 60000)) == "unsat" or \
                                    second_chance(s.assertions(), max(self.timeout_ms, 60000)) == "unsat":
                                r2 = z3.unsat
                    finally:
                        s.pop()
                    if r2 == z3.unsat:
                        return "known", model, backend, ids
                    if r2 == z3.unknown:
                        return "unknown", model, backend, None
                return "failed", model, backend, known
            return "unknown", None, backend, None
        finally:
            s.pop()


def _smt2(solver: z3.Solver, extra) -> str:
    txt = solver.to_smt2()
    # z3 prints (check-sat) at the end already
    return txt
