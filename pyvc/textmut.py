"""Layout-insensitive text mutation for negative controls.

A control is (file, old text, new text).  The old text is located in the source as a *token*
sequence (comments, blank lines, indentation, line breaks and string-quote style are ignored), so a
control keeps applying after a harmless reformatting of the file.  The replacement keeps the
source outside the matched span byte for byte."""
import ast
import io
import tokenize

_SKIP = {tokenize.NL, tokenize.NEWLINE, tokenize.INDENT, tokenize.DEDENT, tokenize.COMMENT,
         tokenize.ENCODING, tokenize.ENDMARKER}


def _tokens(text):
    out = []
    try:
        for t in tokenize.generate_tokens(io.StringIO(text).readline):
            if t.type in _SKIP:
                continue
            s = t.string
            if t.type == tokenize.STRING:
                try:
                    s = repr(ast.literal_eval(s))
                except Exception:           # f-strings etc.: compare verbatim
                    pass
            out.append((s, t.start, t.end))
    except (tokenize.TokenError, IndentationError):
        pass                                # a fragment may end inside a bracket: keep what was read
    return out


def _offsets(text):
    offs, n = [0], 0
    for line in text.splitlines(keepends=True):
        n += len(line)
        offs.append(n)
    return offs


def locate(text, old):
    """-> list of (start, end) character spans of `text` whose tokens equal those of `old`"""
    if text.count(old) >= 1:
        spans, i = [], text.find(old)
        while i >= 0:
            spans.append((i, i + len(old)))
            i = text.find(old, i + 1)
        return spans
    pat = [s for s, _, _ in _tokens(old.strip())]
    if not pat:
        return []
    toks = _tokens(text)
    offs = _offsets(text)
    spans = []
    for i in range(len(toks) - len(pat) + 1):
        if all(toks[i + k][0] == pat[k] for k in range(len(pat))):
            (r0, c0), (r1, c1) = toks[i][1], toks[i + len(pat) - 1][2]
            spans.append((offs[r0 - 1] + c0, offs[r1 - 1] + c1))
    return spans


def mutate(text, old, new):
    """-> (new text, None) when `old` occurs exactly once, else (None, reason)"""
    spans = locate(text, old)
    if len(spans) != 1:
        return None, f"the text to mutate occurs {len(spans)} times (needs exactly 1)"
    a, b = spans[0]
    if text[a:b] == old:
        return text[:a] + new + text[b:], None
    return text[:a] + new.strip() + text[b:], None
