"""Sets of symbolic members, as images of an index range: { elem(k) | 0 <= k < n, keep(k) }.

Non-emptiness is a Boolean with a Skolem witness (for the existential) and a lazily
instantiated universal (for its negation), so the encoding stays quantifier-free."""
from __future__ import annotations

import ast

import z3

from . import ops
from .values import ForallV, Unsupported, is_z3, to_z3


class SetV:
    def __init__(self, n, elem, keep=None):
        self.n = n
        self.elem = elem
        self.keep = keep or (lambda k: True)
        self._nonempty = None

    def _member_at(self, k):
        return ops.b_and(ops.compare(ast.GtE, k, 0), ops.compare(ast.Lt, k, self.n), self.keep(k))

    # -- queries -------------------------------------------------------------
    def nonempty(self, I):
        if self._nonempty is not None:
            return self._nonempty
        ctx = I.ctx
        if isinstance(self.n, int):
            ne = ops.b_or(*[self._member_at(k) for k in range(self.n)])
            self._nonempty = ne
            return ne
        ne = ctx.fresh("nonempty", "bool")
        w = ctx.fresh("witness", "int")
        I.saw_index(w)
        ctx.assume(z3.Implies(ne, to_z3(self._member_at(w))))
        me = self
        I.add_forall(ForallV(lambda k: ops.b_implies(ops.b_not(ne), ops.b_not(me.keep(k))), 0, self.n, "k"))
        self._nonempty = ne
        return ne

    def contains(self, x):
        if isinstance(self.n, int):
            return ops.b_or(*[ops.b_and(self._member_at(k), ops.equal(self.elem(k), x))
                              for k in range(self.n)])
        raise Unsupported("membership in a set of symbolic size")

    # -- set algebra with concrete sets ---------------------------------------
    def difference(self, other):
        if isinstance(other, (set, frozenset, list, tuple)):
            items = list(other)
            keep0, elem = self.keep, self.elem
            return SetV(self.n, elem,
                        lambda k: ops.b_and(keep0(k), *[ops.b_not(ops.equal(elem(k), o)) for o in items]))
        raise Unsupported("difference with a symbolic set")

    def call_method(self, I, name, args, kwargs):
        if name == "difference":
            return self.difference(args[0])
        raise Unsupported(f"set method .{name}() on a symbolic set")

    def truth(self, I):
        return self.nonempty(I)

    def eq_empty(self, I):
        return ops.b_not(self.nonempty(I))
