"""Model of reads through a 1-d boolean mask  x[..., mask, ...]  (torch semantics A3): the mask
selects its True positions in increasing order, so the read is a gather through the int tensor
`sel` that enumerates them.  Additive: nothing changes unless a contracts module calls
`install(reg)`; `tensor.getitem` then asks `hook` instead of refusing the mask read.

For a mask m of length n (memoised per mask object, so three reads through one mask share one
enumeration):  count c with 0 <= c <= n, functions sel, rank with
    forall a in [0, c):    0 <= sel(a) < n  and  m[sel(a)]  and  rank(sel(a)) == a
    forall a in [0, c-1):  sel(a) < sel(a + 1)                      (order is preserved)
    forall k in [0, n):    m[k] -> 0 <= rank(k) < c and sel(rank(k)) == k   (every True position is hit)
These determine sel and c uniquely (sel is the increasing bijection from [0,c) onto the True
positions).  The hypotheses are triggered by reads of sel / rank.

Also: `sum(1 for x in mask if x)` = c  (registry hooks filtered_comprehension / sym_sum).
"""
from __future__ import annotations

import ast

import z3

from . import tensor as T
from .values import ForallV, SymSeq, Unsupported, to_z3


def enumeration(I, m):
    """(count, sel tensor, rank function) of the 1-d boolean tensor m"""
    ctx = I.ctx
    memo = ctx.ghost.setdefault("mask_enum", {})
    if m.tid in memo:
        return memo[m.tid][1:]
    if m.ndim != 1 or m.dtype != "bool":
        raise Unsupported("mask enumeration of a tensor that is not a 1-d boolean mask")
    n = m.shape[0]
    nz = to_z3(n)
    c = ctx.fresh("mask_count", "int")
    ctx.assume(z3.And(c >= 0, c <= nz))
    sel = z3.Function(ctx.fresh_name("mask_sel"), z3.IntSort(), z3.IntSort())
    rank = z3.Function(ctx.fresh_name("mask_rank"), z3.IntSort(), z3.IntSort())

    def sel_fn(a):
        I.saw_read(sel.name(), (a,))
        return sel(to_z3(a))

    def rank_fn(k):
        I.saw_read(rank.name(), (k,))
        return rank(to_z3(k))
    t = T.LamTensor((c,), sel_fn, "int", sel.name())
    memo[m.tid] = (m, c, t, rank_fn)
    I.add_forall(ForallV(lambda a: z3.And(sel(to_z3(a)) >= 0, sel(to_z3(a)) < nz, to_z3(I.truth(m.fn(sel(to_z3(a))))),
                                          rank(sel(to_z3(a))) == to_z3(a)), 0, c, "a"))
    I.add_forall(ForallV(lambda a: sel(to_z3(a)) < sel(to_z3(a) + 1), 0, c - 1, "a"))
    I.add_forall(ForallV(lambda k: z3.Implies(to_z3(I.truth(m.fn(k))),
                                              z3.And(rank(to_z3(k)) >= 0, rank(to_z3(k)) < c,
                                                     sel(rank(to_z3(k))) == to_z3(k))), 0, n, "k"))
    I.session.note("boolean-mask read modelled: gather through the increasing enumeration of the mask's True positions")
    return c, t, rank_fn


def hook(mask, size, ctx):
    I = ctx.ghost.get("interp")
    if I is None:
        raise Unsupported("boolean-mask read (no interpreter registered for the mask model)")
    if not (isinstance(mask.shape[0], int) and isinstance(size, int) and mask.shape[0] == size) and \
            not ctx.entails(to_z3(mask.shape[0]) == to_z3(size)):
        raise Unsupported("boolean mask whose length differs from the indexed dimension")
    return enumeration(I, mask)[1]


def filtered_comprehension(I, node, gen, seq, sub):
    """[1 for x in mask if x]: count(mask) ones (the only filtered comprehension modelled)"""
    ok = (isinstance(seq, T.LamTensor) and seq.ndim == 1 and seq.dtype == "bool" and len(gen.ifs) == 1
          and isinstance(gen.ifs[0], ast.Name) and isinstance(gen.target, ast.Name)
          and gen.ifs[0].id == gen.target.id and isinstance(node.elt, ast.Constant) and node.elt.value == 1)
    if not ok:
        raise Unsupported("filtered comprehension over a symbolic-length sequence")
    c = enumeration(I, seq)[0]
    s = SymSeq(c, lambda k: 1)
    s.all_ones = True
    return s


def sym_sum(I, seq, start=0):
    if getattr(seq, "all_ones", False):
        from . import ops
        return ops.add(start, seq.length)
    raise Unsupported("sum over a symbolic-length sequence")


def install(reg):
    T.MASK_READ_HOOK = hook
    reg.filtered_comprehension = filtered_comprehension
    reg.sym_sum = sym_sum
    reg.ghost_funcs["mask_count"] = lambda I, m: enumeration(I, m)[0]
    reg.ghost_funcs["mask_sel"] = lambda I, m: enumeration(I, m)[1]
