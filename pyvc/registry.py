"""Contracts, class specs, call policies, loop invariants, function verification."""
from __future__ import annotations

import ast
import re
from fractions import Fraction

import z3

from . import intrinsics as X, ops, tensor as T
from .interp import (BreakSig, ContinueSig, Frame, Interp, RaiseSig, ReturnSig, _MISSING)
from .paths import NeedFork, PathCtx, PathEnd, explore
from .repo import Repo, TargetNotFound
from .values import (BoundMethod, ClassRef, CplxV, EnumV, ForallV, FuncRef, Inf, ModRef, Opaque,
                     OptV, SymObj, SymSeq, Unsupported, is_boolish, is_num, is_z3, to_z3)


def parse_expr(src: str) -> ast.expr:
    return ast.parse(src.strip(), mode="eval").body


class Contract:
    def __init__(self, target: str, **kw):
        self.target = target
        self.params: dict = kw.pop("params", {})
        self.requires: list[str] = kw.pop("requires", [])
        self.ensures: list[str] = kw.pop("ensures", [])
        self.raises: dict = kw.pop("raises", {})            # exc -> condition (pre-state) under which it MAY be raised
        self.raises_when: dict = kw.pop("raises_when", {})  # exc -> condition under which it MUST be raised
        self.modifies: list[str] = kw.pop("modifies", [])
        self.returns = kw.pop("returns", None)
        self.loops: dict = kw.pop("loops", {})
        self.policies: dict = kw.pop("policies", {})
        self.setup = kw.pop("setup", None)
        self.post_setup = kw.pop("post_setup", None)
        self.property = kw.pop("property", None)
        self.label = kw.pop("label", None)
        self.fresh_self = kw.pop("fresh_self", False)       # constructor: self has no fields yet
        self.pure = kw.pop("pure", False)
        self.max_paths = kw.pop("max_paths", 4000)
        self.ensures_names = kw.pop("ensures_names", None)
        # clauses that follow from requires + ensures alone (proved in a clean context that
        # contains only those, not by executing the code); assumed at call sites like ensures
        self.derived: list[str] = kw.pop("derived", [])
        # Abstract face used at call sites (opaque / reveal): when given, callers see only these
        # clauses.  abs_requires must be a predicate that is established solely by abs_ensures of
        # this class's constructor (so it implies the full requires); abs_ensures must be a subset
        # of, or follow from, ensures + derived.  Both conditions are stated per contract.
        self.abs_requires = kw.pop("abs_requires", None)
        self.abs_ensures = kw.pop("abs_ensures", None)
        self.extra = kw
        if kw:
            unknown = set(kw) - {"doc", "known", "not_decided", "denominators", "yield_ensures"}
            if unknown:
                raise ValueError(f"contract {target}: unknown keys {sorted(unknown)}")

    @property
    def short(self) -> str:
        return self.label or self.target.split(":")[1]

    @property
    def key(self) -> str:
        return self.target.split(":")[0] + ":" + self.short


class Registry:
    def __init__(self, repo: Repo):
        self.repo = repo
        self.contracts: dict[str, Contract] = {}
        self.all: dict[str, Contract] = {}
        self.classes: dict[str, dict] = {}
        self.ghost_funcs: dict[str, object] = {}
        self.policies: dict[str, object] = {}
        self.class_policies: dict[str, object] = {}
        self.external: dict[str, object] = {}           # dotted name -> model fn(I, *args, **kw)
        self.constants: dict[str, object] = {}
        self.active_policies: dict[str, object] = {}    # per-verification overrides
        self.active_loops: dict[str, dict] = {}
        self.known: dict[str, list] = {}                # obligation base name -> [(id, region expr)]
        self.ghost_funcs["inv"] = self._inv
        self.ghost_funcs["is_none"] = lambda I, v: I.identical(v, None)
        self.ghost_funcs["cls_of"] = lambda I, o: o.cls
        self.hooks: dict[str, object] = {}

    # -- declaration API ---------------------------------------------------
    def add_contract(self, c: Contract, callsite: bool = True):
        """Register a contract.  `callsite=False`: a verification-only variant (same target,
        different parameter domain) that call sites do not use."""
        if callsite:
            self.contracts[c.target] = c
        self.all[c.key] = c
        return c

    def add_class(self, name: str, **spec):
        self.classes[name] = spec

    # -- lookups used by the interpreter -------------------------------------
    def policy(self, fref: FuncRef):
        key = fref.key
        for table in (self.active_policies, self.policies):
            if key in table:
                p = table[key]
                if callable(p):
                    return "model", p
                if p == "contract":
                    break
                return p, None
        if key in self.contracts and self.active_policies.get(key) != "inline":
            return "contract", self.contracts[key]
        node = fref.node
        if isinstance(node, ast.FunctionDef) and any(
                isinstance(d, ast.Name) and d.id == "property" for d in node.decorator_list):
            return "inline", None
        return "opaque", None

    def class_policy(self, cref: ClassRef):
        return self.class_policies.get(cref.key) or self.class_policies.get(cref.name)

    def loop_specs(self, fref: FuncRef):
        if fref.key in self.active_loops:
            return self.active_loops[fref.key]
        c = self.contracts.get(fref.key)
        return c.loops if c else {}

    def external_constant(self, dotted: str):
        if dotted in self.constants:
            return self.constants[dotted]
        if dotted == "math.pi":
            raise Unsupported("math.pi")
        if dotted == "math.inf":
            return Inf(1)
        return _MISSING

    def external_base_of(self, I, module, cls):
        if cls is not None:
            for b in cls.bases:
                if isinstance(b, ast.Name) and b.id in module.imports:
                    mod, attr = module.imports[b.id]
                    return f"{mod}.{attr}"
        return "object"

    def external_base_init(self, I, obj, cref, args, kwargs):
        return None

    # -- values ------------------------------------------------------------
    def make_value(self, I: Interp, typ, name: str, env: dict | None = None):
        ctx = I.ctx
        if callable(typ):
            if typ.__code__.co_argcount >= 3:
                return typ(I, name, env or {})
            return typ(I, name)
        typ = typ.strip()
        if typ.endswith("?"):
            inner = self.make_value(I, typ[:-1], name, env)
            return OptV(ctx.fresh(name + ".is_none", "bool"), inner)
        if typ in ("real", "int", "bool", "str"):
            return ctx.fresh(name, typ)
        if typ == "nat":
            v = ctx.fresh(name, "int")
            ctx.assume(v >= 0)
            return v
        if typ == "posreal":
            v = ctx.fresh(name, "real")
            ctx.assume(v > 0)
            return v
        if typ == "opaque":
            return Opaque(name)
        if typ == "none":
            return None
        if typ.startswith("obj:"):
            return self.make_object(I, typ[4:], name)
        if typ.startswith("enum:"):
            _, cls, members = typ.split(":")
            m = ctx.fresh(name, "str")
            ctx.assume(z3.Or(*[m == z3.StringVal(x) for x in members.split(",")]))
            return EnumV(cls, m)
        mt = re.fullmatch(r"tensor\[(real|int|bool)\]\((.*)\)", typ)
        if mt:
            dims = []
            for d in [x.strip() for x in mt.group(2).split(",") if x.strip()]:
                if d.lstrip("-").isdigit():
                    dims.append(int(d))
                elif env is not None and d in env:
                    dims.append(env[d])
                else:
                    v = parse_expr(d)
                    fr = Frame(self.repo.module("emu_base.constants"), "<shape>")
                    fr.locals.update(env or {})
                    dims.append(I.eval(v, fr))
            return self.sym_tensor(I, ctx.fresh_name(name), tuple(dims), mt.group(1))
        mt = re.fullmatch(r"list\[(.*)\]\((\d+)\)", typ)
        if mt:
            return [self.make_value(I, mt.group(1), f"{name}[{k}]", env) for k in range(int(mt.group(2)))]
        raise Unsupported(f"unknown type string {typ!r}")

    def sym_tensor(self, I, name, shape, sort="real"):
        t = T.sym_tensor(name, shape, sort)
        raw = t.fn
        ctx = I.ctx

        def fn(*i):
            I.saw_read(name, i)
            return raw(*i)
        t.fn = fn if shape else raw
        return t

    def make_object(self, I, clsname: str, name: str):
        spec = self.classes.get(clsname)
        if spec is None:
            raise Unsupported(f"no class spec for {clsname}")
        obj = SymObj(clsname, spec.get("module"))
        env: dict = {}
        for f, ty in spec.get("fields", {}).items():
            v = self.make_value(I, ty, f"{name}.{f}", env)
            obj.fields[f] = v
            env[f] = v
        if spec.get("frozen"):
            obj.frozen = True
        return obj

    def havoc_like(self, I, v, name: str, typ=None):
        ctx = I.ctx
        if typ is not None:
            return self.make_value(I, typ, name)
        if isinstance(v, bool) or (is_z3(v) and z3.is_bool(v)):
            return ctx.fresh(name, "bool")
        if isinstance(v, int) or (is_z3(v) and z3.is_int(v)):
            return ctx.fresh(name, "int")
        if isinstance(v, Fraction) or (is_z3(v) and z3.is_real(v)):
            return ctx.fresh(name, "real")
        if isinstance(v, str) or (is_z3(v) and z3.is_string(v)):
            return ctx.fresh(name, "str")
        if isinstance(v, OptV):
            return OptV(ctx.fresh(name + ".is_none", "bool"), self.havoc_like(I, v.val, name))
        if isinstance(v, T.LamTensor):
            return self.sym_tensor(I, ctx.fresh_name(name), v.shape,
                                   v.dtype if v.dtype in ("real", "int", "bool") else "real")
        if isinstance(v, EnumV):
            return EnumV(v.cls, ctx.fresh(name, "str"))
        if isinstance(v, Opaque):
            return Opaque(ctx.fresh_name(name))
        if isinstance(v, SymSeq):
            n = ctx.fresh(name + ".len", "int")
            ctx.assume(n >= 0)
            f = z3.Function(ctx.fresh_name(name + ".el"), z3.IntSort(), z3.RealSort())
            return SymSeq(n, lambda k: f(to_z3(k)), v.kind)
        if hasattr(v, "havoc"):
            return v.havoc(I, name)
        raise Unsupported(f"cannot havoc a value of kind {type(v).__name__} ({name}); declare its type")

    # -- contract expression evaluation -----------------------------------
    def contract_frame(self, I, module, label, env: dict, old_env: dict | None):
        fr = Frame(module, label)
        fr.locals.update(env)
        fr.in_contract_expr = True
        if old_env is not None:
            o = Frame(module, label + "<old>")
            o.locals.update(old_env)
            o.in_contract_expr = True
            fr.old_env = o
        return fr

    def eval_clause(self, I, src: str, fr: Frame):
        I.ctx.speculative += 1
        try:
            v = I.eval(parse_expr(src), fr)
        except NeedFork:
            raise Unsupported(f"contract clause is not pure: {src}")
        finally:
            I.ctx.speculative -= 1
        if isinstance(v, ForallV):
            return v
        return I.truth(v)

    def _inv(self, I, obj):
        if isinstance(obj, OptV):
            obj = obj.val
        spec = self.classes.get(obj.cls, {})
        fr = Frame(self.repo.module(spec["module"]), f"inv({obj.cls})")
        fr.locals["self"] = obj
        fr.in_contract_expr = True
        out = []
        for src in spec.get("invariant", []):
            out.append(self.eval_clause(I, src, fr))
        if any(isinstance(o, ForallV) for o in out):
            raise Unsupported("quantified class invariant")
        return ops.b_and(*out)

    def assume_clause(self, I, v):
        if isinstance(v, ForallV):
            I.add_forall(v)
        else:
            I.ctx.assume(v)

    def prove_clause(self, I, name, v, kind, excuses_fr=None):
        ctx = I.ctx
        guards = []
        while isinstance(v, ForallV):
            k = ctx.fresh(v.label, "int")
            # the Skolem's range is a hypothesis of THIS goal only.  (Assuming it on the path would make
            # the path condition unsatisfiable for an empty range -- e.g. `forall q in [0, _k)` at
            # _k = 0 -- and everything after it vacuously true.)
            guards.append(z3.And(k >= to_z3(v.lo), k < to_z3(v.hi)))
            I.saw_index(k)
            v = v.fn(k)
        if guards:
            v = ops.b_implies(ops.b_and(*guards), v)
        excuses = None
        base = f"{ctx.func_label}/{name}"
        if base in self.known and excuses_fr is not None:
            excuses = []
            for fid, region in self.known[base]:
                r = self.eval_clause(I, region, excuses_fr)
                if isinstance(r, ForallV):
                    raise Unsupported("quantified known-finding region")
                excuses.append((fid, to_z3(r) if not is_z3(r) else r))
        return ctx.prove(name, v, kind, excuses)

    # -- snapshot for old() ----------------------------------------------
    def snapshot(self, v, memo=None):
        memo = {} if memo is None else memo
        if isinstance(v, SymObj):
            if v.oid in memo:
                return memo[v.oid]
            c = SymObj(v.cls, v.module)
            c.oid = v.oid
            memo[v.oid] = c
            for k, x in v.fields.items():
                c.fields[k] = self.snapshot(x, memo)
            return c
        if isinstance(v, list):
            return [self.snapshot(x, memo) for x in v]
        if isinstance(v, tuple):
            return tuple(self.snapshot(x, memo) for x in v)
        if isinstance(v, dict):
            return {k: self.snapshot(x, memo) for k, x in v.items()}
        if isinstance(v, T.LamTensor):
            c = v.copy()
            return c
        if isinstance(v, OptV):
            return OptV(v.is_none, self.snapshot(v.val, memo))
        if hasattr(v, "snapshot"):
            return v.snapshot(memo)
        return v

    # -- frame (modifies) -------------------------------------------------
    def resolve_paths(self, I, paths, fr):
        """'self.a' -> (object, field)"""
        out = []
        for p in paths:
            parent, _, field = p.rpartition(".")
            if not parent:
                out.append((None, p))
                continue
            obj = I.eval(parse_expr(parent), fr)
            if isinstance(obj, OptV):
                obj = obj.val
            out.append((obj, field))
        return out

    def havoc_paths(self, I, paths, fr, tag="h"):
        done = set()
        for obj, field in self.resolve_paths(I, paths, fr):
            if obj is None:
                cur = fr.locals.get(field)
                fr.locals[field] = self.havoc_like(I, cur, field)
                continue
            if isinstance(obj, T.LamTensor) and field == "*":
                new = self.havoc_like(I, obj, "t")
                obj.fn = new.fn
                obj.version += 1
                done.add((("tensor", obj.tid), "*"))
                continue
            if isinstance(obj, list) and field == "*":
                raise Unsupported("havoc of a python list; use a SymSeq")
            if not isinstance(obj, (SymObj, Opaque)):
                raise Unsupported(f"modifies path through {type(obj).__name__}")
            store = obj.fields if isinstance(obj, SymObj) else obj.attrs
            spec = self.classes.get(getattr(obj, "cls", ""), {})
            names = list(store.keys()) if field == "*" else [field]
            for f in names:
                ty = spec.get("fields", {}).get(f)
                cur = store.get(f)
                if cur is None and ty is None:
                    raise Unsupported(f"havoc of {obj}.{f}: no current value and no declared type")
                if isinstance(cur, (SymObj,)) and ty is None:
                    continue          # nested objects keep identity; list their fields explicitly
                store[f] = self.havoc_like(I, cur, f"{tag}.{f}", ty)
                done.add((obj.oid, f))
        return done

    # -- modular call -------------------------------------------------------
    def apply_contract(self, I: Interp, c: Contract, fref: FuncRef, args, kwargs):
        ctx = I.ctx
        callee = c.short
        fr0 = I.new_frame(fref)
        I.bind_params(fref.node, args, kwargs, fr0, Frame(fref.module, fref.key))
        env = dict(fr0.locals)
        is_init = fref.qualname.endswith(".__init__")
        old_env = self.snapshot(env)
        fr = self.contract_frame(I, fref.module, f"call:{callee}", env, old_env)
        if c.post_setup:
            c.post_setup(I, fr)      # ghost definitions are needed by the requires as well
        for k, src in enumerate(c.requires if c.abs_requires is None else c.abs_requires):
            v = self.eval_clause(I, src, fr)
            self.prove_clause(I, f"call:{callee}/pre#{k}", v, "pre", fr)
        # exceptional exits
        for exc, cond in c.raises_when.items():
            cv = self.eval_clause(I, cond, fr)
            if ctx.branch(cv):
                raise RaiseSig(exc, f"from {callee}", ctx.cur_line)
        for exc, cond in c.raises.items():
            if exc in c.raises_when:
                continue
            cv = True if cond is None else self.eval_clause(I, cond, fr)
            nd = ctx.fresh(f"{callee}.raises.{exc}", "bool")
            if ctx.branch(ops.b_and(nd, cv), free=(cv is True)):
                raise RaiseSig(exc, f"from {callee}", ctx.cur_line)
        # frame
        if is_init and c.fresh_self:
            obj = env["self"]
            spec = self.classes.get(obj.cls, {})
            for f, ty in spec.get("fields", {}).items():
                obj.fields[f] = self.make_value(I, ty, f"{obj.cls}.{f}")
                ctx.log_write(obj.oid, f)
        written = self.havoc_paths(I, c.modifies, fr, tag=callee)
        for w in written:
            ctx.log_write(*w)
        result = None
        if c.returns is not None:
            result = self.make_value(I, c.returns, f"{callee}.result", env)
        fr.locals["result"] = result
        if c.post_setup:
            c.post_setup(I, fr)
        for src in (list(c.ensures) + list(c.derived) if c.abs_ensures is None else c.abs_ensures):
            self.assume_clause(I, self.eval_clause(I, src, fr))
        self.vacuity_guard(I, f"call:{callee}/contract-consistent")
        return result

    def vacuity_guard(self, I, name):
        """Assumptions have just been added (an invariant after havoc, a callee's postcondition): the
        path condition must stay satisfiable, otherwise everything after would be proved vacuously.
        An inconsistent assumption is a failed obligation of its own (a contract error or a spec
        that the code contradicts), never a silent pass."""
        ctx = I.ctx
        r = ctx._check()
        if r == z3.unsat:
            from .paths import Obligation
            ctx.obligations.append(Obligation(f"{ctx.func_label}/{name}", "vacuity", "failed",
                                              note="assumed clauses are inconsistent with the path condition",
                                              lineno=ctx.cur_line, func=ctx.func_label))
            raise PathEnd()

    # -- loops with invariants ----------------------------------------------
    def invariant_loop(self, I: Interp, node, fr: Frame, ordinal, spec: dict, it):
        ctx = I.ctx
        if ctx.speculative:
            raise NeedFork()
        label = f"loop{ordinal}"
        is_for = isinstance(node, ast.For)
        kname = spec.get("index", "_k")
        nname = spec.get("count", "_n")
        cfr = Frame(fr.module, fr.label + "/" + label, closure=fr)
        cfr.in_contract_expr = True
        cfr.old_env = fr.old_env
        spec_locals = spec.get("locals", {})
        if is_for:
            count, item = self.iteration_domain(I, it)
            cfr.locals[nname] = count
            cfr.locals[kname] = 0
            cfr.locals["_iter"] = it             # the value the loop runs over (it may have no name in the code)
        # 1. established
        for j, src in enumerate(spec.get("invariant", [])):
            self.prove_clause(I, f"{label}/established#{j}", self.eval_clause(I, src, cfr), "inv", cfr)
        # 2. havoc
        assigned = _assigned_names(node.body + (node.orelse if False else []))
        if is_for:
            assigned |= _target_names(node.target)
        havocked_locals = set()
        for nm in sorted(assigned):
            found, cur = fr.lookup(nm)
            ty = spec_locals.get(nm)
            if not found and ty is None:
                continue            # first assigned inside the loop body
            if is_for and nm in _target_names(node.target):
                continue
            fr.locals[nm] = self.havoc_like(I, cur, nm, ty)
            havocked_locals.add(nm)
        for nm, ty in spec_locals.items():
            if nm not in havocked_locals:
                fr.locals[nm] = self.make_value(I, ty, nm)
                havocked_locals.add(nm)
        allowed = self.havoc_paths(I, spec.get("modifies", []), cfr, tag=label)
        for nm in havocked_locals:
            v = fr.locals.get(nm)
            if isinstance(v, SymSeq):
                allowed.add((("symseq", v.oid), "*"))      # a havocked local sequence may grow
        for w in allowed:
            ctx.log_write(*w)
        if is_for:
            k = ctx.fresh(kname, "int")
            ctx.assume(z3.And(k >= 0, k <= to_z3(count)))
            I.saw_index(k)
            cfr.locals[kname] = k
        # 3. assume invariant
        for src in spec.get("invariant", []):
            self.assume_clause(I, self.eval_clause(I, src, cfr))
        self.vacuity_guard(I, f"{label}/invariant-consistent")
        # 4. iterate or exit
        if is_for:
            go = ctx.branch(to_z3(k) < to_z3(count))
        else:
            go = ctx.branch(I.truth(I.eval(node.test, fr)))
        if go:
            if is_for:
                I.assign(node.target, item(k), fr)
                fr.locals[kname] = k           # ghost local: visible to invariants of inner loops
                fr.locals[nname] = count
            v0 = None
            if "variant" in spec:
                v0 = I.eval(parse_expr(spec["variant"]), cfr)
                ctx.prove(f"{label}/variant-bounded", ops.compare(ast.GtE, v0, 0), "variant")
            log: set = set()
            # objects allocated during the iteration are not part of the loop's frame
            marks = (_peek(_values_ids), _peek(T._tid))
            ctx.heap_writes.append(log)
            broke = False
            try:
                try:
                    I.exec_block(node.body, fr)
                except ContinueSig:
                    pass
                except BreakSig:
                    broke = True
            finally:
                ctx.heap_writes.pop()
            extra = {w for w in log if w not in allowed and not _is_fresh_write(w, marks)}
            extra = {w for w in extra if not self._write_ok(w, spec)}
            if extra:
                raise Unsupported(f"{fr.label}/{label}: loop body writes {sorted(map(str, extra))} "
                                  "outside the loop's declared modifies")
            if broke:
                return            # continue after the loop with the current state
            if is_for:
                cfr.locals[kname] = k + 1
            for j, src in enumerate(spec.get("invariant", [])):
                self.prove_clause(I, f"{label}/preserved#{j}", self.eval_clause(I, src, cfr), "inv", cfr)
            if v0 is not None:
                v1 = I.eval(parse_expr(spec["variant"]), cfr)
                step = 1 if (is_num(v0) and not (is_z3(v0) and z3.is_real(v0))) else spec.get("variant_step", 1)
                ctx.prove(f"{label}/variant-decreases",
                          ops.compare(ast.LtE, v1, ops.sub(v0, step)), "variant")
            raise PathEnd()
        else:
            if is_for:
                ctx.assume(to_z3(k) == to_z3(count))
            I.exec_block(node.orelse, fr)

    def _write_ok(self, w, spec):
        return w[0] in spec.get("ignore_writes", ()) or (isinstance(w[0], tuple) and w[0][0] in spec.get(
            "ignore_write_kinds", ()))

    def iteration_domain(self, I, it):
        """(count, item(k)) of an iterable of symbolic length."""
        if isinstance(it, X.RangeV):
            if it.step == 1:
                count = ops.maximum(ops.sub(it.hi, it.lo), 0)
                return count, (lambda k: ops.add(it.lo, k))
            count = ops.maximum(ops.sub(it.lo, it.hi), 0)
            return count, (lambda k: ops.sub(it.lo, k))
        if isinstance(it, range):
            return len(it), (lambda k: ops.add(it.start, ops.mul(it.step, k)))
        if isinstance(it, SymSeq):
            return it.length, it.fn
        if isinstance(it, T.LamTensor):
            return it.shape[0], (lambda k: X._scalar(T.getitem(it, k)))
        if isinstance(it, (list, tuple)):
            items = list(it)
            return len(items), (lambda k: items[k] if isinstance(k, int) else I.select_list(items, to_z3(k)))
        if hasattr(it, "iteration_domain"):
            return it.iteration_domain(I)
        raise Unsupported(f"invariant loop over {type(it).__name__}")

    # -- externals ------------------------------------------------------------
    def call_external(self, I, dotted, args, kwargs, fr=None):
        if dotted in self.external:
            return self.external[dotted](I, *args, **kwargs)
        head, _, name = dotted.rpartition(".")
        if head == "builtins" and name in X.BUILTINS:
            return X.BUILTINS[name](I, *args, **kwargs)
        if head == "math" and name in X.MATH:
            return X.MATH[name](I, *args, **kwargs)
        if head == "torch" and name in X.TORCH:
            return X.TORCH[name](I, *args, **kwargs)
        if dotted in X.TORCH_DOTTED:
            return X.TORCH_DOTTED[dotted](I, *args, **kwargs)
        if head == "builtins" and name.endswith(("Error", "Exception")):
            return Opaque(f"exc:{name}")
        if dotted.startswith(X.NOEFFECT_PREFIXES):
            return Opaque(dotted)
        if dotted == "time.time":
            return I.ctx.fresh("time", "real")
        if dotted in ("copy.deepcopy", "copy.copy"):
            return self.snapshot(args[0])
        if dotted in ("typing.cast",):
            return args[1]
        if I.ctx.speculative:
            raise NeedFork()
        I.session.note(f"external call: {dotted} (result unconstrained, arguments assumed unchanged)")
        return Opaque(I.ctx.fresh_name(dotted))

    def call_method(self, I, obj, name, args, kwargs):
        if isinstance(obj, T.LamTensor):
            return X.tensor_method(I, obj, name, args, kwargs)
        return X.container_method(I, obj, name, args, kwargs)

    def call_opaque(self, I, callee: Opaque, args, kwargs):
        key = f"method:{callee.name.split('.')[-1]}"
        if key in self.external:
            return self.external[key](I, callee, *args, **kwargs)
        if I.ctx.speculative:
            raise NeedFork()
        if not callee.name.startswith(X.NOEFFECT_PREFIXES):
            I.session.note(f"opaque call: {_strip(callee.name)}(...) (result unconstrained)")
        return Opaque(I.ctx.fresh_name(callee.name + "()"))

    def tensor_attr(self, I, t, name):
        return X.tensor_attr(I, t, name)

    def with_enter(self, I, v):
        h = self.hooks.get("with_enter")
        return h(I, v) if h else v

    def with_exit(self, I, v):
        h = self.hooks.get("with_exit")
        if h:
            h(I, v)

    def _unsupported(what):
        def f(self, I, *a, **k):
            raise Unsupported(what)
        return f

    make_set = _unsupported("set of symbolic members")
    filtered_comprehension = _unsupported("filtered comprehension over a symbolic-length sequence")
    min_with_key = _unsupported("min(..., key=)")
    sym_sum = _unsupported("sum over a symbolic-length sequence")
    sym_all = _unsupported("all() over a symbolic-length sequence")
    sym_any = _unsupported("any() over a symbolic-length sequence")
    def tensor_all(self, I, x):
        """torch.all over a symbolic-length 1-d tensor: a Boolean b with (b -> every element is
        true) as a lazily instantiated universal and a Skolem witness for (not b)."""
        if x.ndim != 1:
            raise Unsupported("torch.all over a symbolic multi-dimensional shape")
        ctx = I.ctx
        n = x.shape[0]
        b = ctx.fresh("all", "bool")
        w = ctx.fresh("w", "int")
        xf = x.fn
        ctx.assume(z3.Implies(z3.Not(b), z3.And(w >= 0, w < to_z3(n), z3.Not(to_z3(I.truth(xf(w)))))))
        I.add_forall(ForallV(lambda k: ops.b_implies(b, I.truth(xf(k))), 0, n, "k"))
        return b

    def tensor_any(self, I, x):
        """torch.any over a symbolic-length 1-d tensor (dual of tensor_all)"""
        ctx = I.ctx
        n = x.shape[0]
        b = ctx.fresh("any", "bool")
        w = ctx.fresh("w", "int")
        xf = x.fn
        ctx.assume(z3.Implies(b, z3.And(w >= 0, w < to_z3(n), to_z3(I.truth(xf(w))))))
        I.add_forall(ForallV(lambda k: ops.b_implies(ops.b_not(b), ops.b_not(I.truth(xf(k)))), 0, n, "k"))
        return b
    def tensor_sum(self, I, x, dim=None):
        if dim is not None:
            raise Unsupported("tensor sum along a dimension of a symbolic shape")
        I.session.note("torch.sum over a symbolic shape: value uninterpreted")
        v = I.ctx.fresh("tensor_sum", "real")
        return T.LamTensor((), lambda: v, "real")
    tensor_max = _unsupported("tensor max over a symbolic shape")
    tensor_equal = _unsupported("torch.equal over a symbolic shape")
    tensor_view = _unsupported("tensor view/reshape")
    tensor_norm = _unsupported("tensor norm")
    string_chars = _unsupported("list(str) of a symbolic string")
    string_join = _unsupported("str.join of symbolic items")
    def symseq_append(self, I, seq, value):
        """list.append on a symbolic-length sequence: length + 1, last element = value"""
        if I.ctx.speculative:
            raise NeedFork()
        n0, f0 = seq.length, seq.fn
        seq.length = ops.add(n0, 1)
        if is_num(value) or is_boolish(value):
            seq.fn = lambda k: ops.ite(ops.equal(k, n0), value, f0(k))
        else:
            seq.fn = lambda k: value if (ops.equal(k, n0) is True) else f0(k)
        I.ctx.log_write(("symseq", seq.oid), "*")
        return None
    opaque_tensor = _unsupported("tensor from an opaque value")
    cplx_abs = _unsupported("abs of a complex value")
    def ceil_int(self, I, x):
        """ceil(x) for a symbolic real: the integer n with n - 1 < x <= n"""
        n = I.ctx.fresh("ceil", "int")
        xz = to_z3(x)
        I.ctx.assume(z3.And(z3.ToReal(n) >= xz, z3.ToReal(n) - 1 < xz))
        return n

    def opaque_isinstance(self, I, x, cls):
        key = f"__isinstance__:{getattr(cls, 'name', getattr(cls, 'dotted', '?'))}"
        if isinstance(x, Opaque):
            return I.opaque_attr_bool(x, key)
        raise Unsupported("isinstance against an opaque class")

    def external_isinstance(self, I, x, dotted):
        if isinstance(x, Opaque):
            return I.opaque_attr_bool(x, f"__isinstance__:{dotted}")
        if isinstance(x, SymObj):
            spec = self.classes.get(x.cls, {})
            if dotted in spec.get("external_bases", ()):
                return True
            return False
        return False


def _strip(name):
    return re.sub(r"!\d+", "", name)


def _assigned_names(stmts) -> set:
    out = set()
    for s in stmts:
        for n in ast.walk(s):
            if isinstance(n, ast.Name) and isinstance(n.ctx, ast.Store):
                out.add(n.id)
            elif isinstance(n, ast.AugAssign) and isinstance(n.target, ast.Name):
                out.add(n.target.id)
    return out


def _target_names(t) -> set:
    return {n.id for n in ast.walk(t) if isinstance(n, ast.Name)}


from . import values as _V
_values_ids = _V._ids


def _peek(counter):
    """next value of an itertools.count without consuming it"""
    import copy
    return next(copy.copy(counter))


def _is_fresh_write(w, marks):
    """write to an object / tensor allocated after the loop iteration started"""
    oid_mark, tid_mark = marks
    target = w[0]
    if isinstance(target, int):
        return target >= oid_mark
    if isinstance(target, tuple) and target[0] == "tensor":
        return target[1] >= tid_mark
    if isinstance(target, tuple) and target[0] == "symseq":
        return target[1] >= oid_mark
    return False
