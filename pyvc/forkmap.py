"""fork/waitpid fan-out used instead of multiprocessing.Pool.

multiprocessing.Pool keeps helper threads (task / result handlers); about one run in 25 of the
Engine-B driver hung at pool shutdown on this machine.  A verification run must never hang, so the
fan-out is done with plain processes: worker k computes items k, k+n, k+2n, ... and pickles its
results into a temporary file; the parent waits for every child (a child that dies is reported as an
exception) and returns the results in item order."""
import os
import pickle
import shutil
import tempfile
import traceback


def fork_map(func, items, n):
    items = list(items)
    if not items:
        return []
    n = max(1, min(n, len(items)))
    if n == 1:
        return [func(x) for x in items]
    d = tempfile.mkdtemp(prefix="pyvc_fan_")
    pids = []
    try:
        for k in range(n):
            pid = os.fork()
            if pid == 0:
                code = 0
                try:
                    out = [(i, func(items[i])) for i in range(k, len(items), n)]
                    with open(os.path.join(d, f"part{k}.tmp"), "wb") as f:
                        pickle.dump(out, f)
                    os.replace(os.path.join(d, f"part{k}.tmp"), os.path.join(d, f"part{k}.pkl"))
                except BaseException:      # noqa: BLE001
                    code = 1
                    try:
                        with open(os.path.join(d, f"part{k}.err"), "w") as f:
                            f.write(traceback.format_exc())
                    except Exception:      # noqa: BLE001
                        pass
                finally:
                    os._exit(code)
            pids.append(pid)
        for pid in pids:
            os.waitpid(pid, 0)
        results = [None] * len(items)
        errs = []
        for k in range(n):
            f = os.path.join(d, f"part{k}.pkl")
            if os.path.exists(f):
                with open(f, "rb") as fh:
                    for i, r in pickle.load(fh):
                        results[i] = r
            elif os.path.exists(os.path.join(d, f"part{k}.err")):
                errs.append(open(os.path.join(d, f"part{k}.err")).read()[-2000:])
            else:
                errs.append(f"worker {k} died without a result")
        if errs:
            raise RuntimeError("worker failure:\n" + "\n".join(errs))
        return results
    finally:
        shutil.rmtree(d, ignore_errors=True)
