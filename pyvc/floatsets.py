"""Python sets of floats (modelled as reals) as membership predicates, sorted() of such sets,
bisect on the sorted result, and filtered list comprehensions over symbolic-length sequences.

A `FloatSet` is a finite union of components

    Single(v)                  { v }                                   (set.add, set displays)
    RangeComp(lo, hi, f, keep) { f(i)  | lo <= i < hi, keep(i) }       ({f(i) for i in range(..) if ..})
    AbsComp(E, g, keep)        { g(e)  | E(e), keep(e) }               (a set given only by an
                                                                        uninterpreted predicate E)

closed under `|`, `.add`, set comprehensions `{h(t) for t in S if c(t)}` (h, c are composed into
the components).  Membership  y in S  is the disjunction over the components of the *Skolemised*
existential: for a RangeComp  lo <= idx(y) < hi and keep(idx(y)) and f(idx(y)) == y  with an
uninterpreted choice function idx (one per component); the converse direction
(f(i) == y for some admissible i  ==>  idx(y) is such an i) is instantiated lazily at every index
term the verification condition mentions, so the encoding stays quantifier-free.  Every assumed
instance is a valid consequence of idx / pre being choice functions (Hilbert epsilon).

`sorted(S)` is a `SortedSeq` T with the TRUSTED specification of Python's sorted() on a set of
distinct reals (instantiated at the indices that are read):
    * k < k'  <=>  T[k] < T[k']         (strictly increasing; T is injective)
    * every T[k], 0 <= k < len, is a member of S
    * every member y of S equals T[rank(y)] for a rank 0 <= rank(y) < len   (Skolem function rank)
`bisect.bisect_left(T, v)` is the position p with T[k] < v for k < p and T[k] >= v for k >= p.

A sat answer obtained from finitely many instances is a candidate counterexample only; the
property runner replays it natively before it is reported as a violation.
"""
from __future__ import annotations

import ast
import itertools

import z3

from . import ops
from .values import SymSeq, Unsupported, is_z3, to_z3

_ids = itertools.count(1)
MAX_DEPTH = 1


def _real(v):
    v = to_z3(v)
    return z3.ToReal(v) if z3.is_int(v) else v


_alive: list = []


def _key(t):
    """identity of a term (hash-consed AST id; the term is kept alive so the id is not reused)"""
    if is_z3(t):
        _alive.append(t)
        return t.get_id()
    return repr(t)


def _plain_index(k):
    """an index term built from constants only (Skolem constants of goals, loop counters,
    literals): no application of an uninterpreted function inside"""
    if not is_z3(k):
        return True
    todo, seen = [k], set()
    while todo:
        e = todo.pop()
        if e.get_id() in seen:
            continue
        seen.add(e.get_id())
        if z3.is_app(e):
            if e.num_args() > 0 and e.decl().kind() == z3.Z3_OP_UNINTERPRETED:
                return False
            todo.extend(e.children())
    return True


def _implies(a, b):
    return ops.b_implies(a, b)


def _assume(I, f):
    if f is True:
        return
    I.ctx.assume(f)


class _IndexAxiom:
    """forall i in [lo, hi): body(i), instantiated at the integer index terms that the
    verification condition mentions (I.ctx.ghost['index_terms'], filled by Interp.saw_index:
    Skolem constants of quantified goals, loop counters, read indices) plus `extra` terms.
    Own bookkeeping, independent of the interpreter's hypothesis machinery: `sync` is called at
    every entry point of this module, i.e. whenever a clause touches a symbolic set."""

    def __init__(self, lo, hi, body):
        self.lo, self.hi, self.body = lo, hi, body
        self.done: set = set()

    def at(self, I, k):
        if not _plain_index(k):
            return
        if is_z3(k):
            k = z3.simplify(k)
            if z3.is_int_value(k):
                k = k.as_long()
        key = str(k)
        if key in self.done:
            return
        self.done.add(key)
        rng = ops.b_and(ops.compare(ast.GtE, k, self.lo), ops.compare(ast.Lt, k, self.hi))
        if rng is False:
            return
        g = I.ctx.ghost
        g["fs_inst"] = g.get("fs_inst", 0) + 1
        try:
            _assume(I, _implies(rng, self.body(k)))
        finally:
            g["fs_inst"] -= 1


def lazy(I, what):
    """record that the path condition contains lazily instantiated axioms (a `sat` answer is then
    a candidate counterexample only; see Session.discharge / the runner)"""
    I.ctx.ghost["lazy_axioms"] = what


def add_index_axiom(I, lo, hi, body, extra=()):
    lazy(I, "image sets / filtered sequences over an index range")
    ax = _IndexAxiom(lo, hi, body)
    I.ctx.ghost.setdefault("fs_axioms", []).append(ax)
    for k in list(I.ctx.ghost.get("index_terms", {}).values()) + list(extra):
        ax.at(I, k)
    return ax


def sync(I):
    g = I.ctx.ghost
    if g.get("fs_inst"):
        return
    terms = g.get("index_terms", {})
    axs = g.get("fs_axioms", [])
    stamp = (len(terms), len(axs))
    if g.get("fs_stamp") == stamp:
        return
    for ax in list(axs):
        for k in list(terms.values()):
            ax.at(I, k)
    g["fs_stamp"] = (len(g.get("index_terms", {})), len(g.get("fs_axioms", [])))


# --------------------------------------------------------------------------------------------
# abstract predicates
# --------------------------------------------------------------------------------------------
class AbsPred:
    """An arbitrary set of reals: uninterpreted predicate P plus facts that hold for every member
    (`axioms(I, x)` -> list of formulas, assumed under P(x) at every term x that P is applied to)."""

    def __init__(self, I, name, axioms=None, P=None):
        self.name = I.ctx.fresh_name(name)
        # P: the predicate (default: a fresh uninterpreted one; or any function real term -> Bool,
        # e.g. a section E(j, .) of a binary uninterpreted predicate)
        self.P = P if P is not None else z3.Function(self.name, z3.RealSort(), z3.BoolSort())
        self.axioms = axioms
        lazy(I, "sets given by an uninterpreted predicate")
        self.terms: dict = {}        # candidate members named by the specification / the code
        self.derived: dict = {}      # Skolem pre-images
        self.queries: list = []      # (component, y, conj): membership queries awaiting instances

    def holds(self, I, x, primary=True):
        x = _real(x)
        k = _key(x)
        if k not in self.terms and k not in self.derived and self.axioms is not None:
            facts = [f for f in self.axioms(I, x) if f is not True]
            if facts:
                _assume(I, z3.Implies(self.P(x), z3.And(*[to_z3(f) for f in facts])))
        if primary:
            if k not in self.terms:
                self.terms[k] = x
                self.derived.pop(k, None)
                for comp, y, conj in list(self.queries):
                    comp._intro(I, x, y, conj)
        elif k not in self.terms:
            self.derived[k] = x
        return self.P(x)

    def all_terms(self):
        return list(self.terms.values()) + list(self.derived.values())


# --------------------------------------------------------------------------------------------
# components
# --------------------------------------------------------------------------------------------
def _true(_):
    return True


class Single:
    def __init__(self, value, cond=True):
        self.value, self.cond = value, cond

    def member(self, I, y):
        return ops.b_and(self.cond, ops.equal(self.value, y))

    def mapped(self, h):
        return Single(h(self.value), self.cond)

    def filtered(self, c):
        return Single(self.value, ops.b_and(self.cond, c(self.value)))


class RangeComp:
    def __init__(self, lo, hi, f, keep=None):
        self.lo, self.hi, self.f, self.keep = lo, hi, f, keep or _true
        self.idx = None
        self._q: dict = {}

    def inrange(self, j):
        return ops.b_and(ops.compare(ast.GtE, j, self.lo), ops.compare(ast.Lt, j, self.hi))

    def member(self, I, y):
        ctx = I.ctx
        if self.idx is None:
            self.idx = z3.Function(ctx.fresh_name("idx"), z3.RealSort(), z3.IntSort())
        key = _key(y)
        if key in self._q:
            return self._q[key]
        j = self.idx(y)
        conj = ops.b_and(self.inrange(j), self.keep(j), ops.equal(self.f(j), y))
        self._q[key] = conj
        me = self
        # choice: if any admissible index i gives y, then idx(y) does (instantiated lazily at the
        # index terms of the verification condition; no usable trigger -> every index term)
        add_index_axiom(I, self.lo, self.hi,
                        lambda i: _implies(ops.b_and(me.keep(i), ops.equal(me.f(i), y)), conj),
                        extra=[self.lo, ops.sub(self.hi, 1)])
        return conj

    def mapped(self, h):
        f = self.f
        return RangeComp(self.lo, self.hi, lambda i: h(f(i)), self.keep)

    def filtered(self, c):
        f, keep = self.f, self.keep
        return RangeComp(self.lo, self.hi, f, lambda i: ops.b_and(keep(i), c(f(i))))


class AbsComp:
    def __init__(self, pred: AbsPred, g=None, keep=None):
        self.pred, self.g, self.keep = pred, g or (lambda e: e), keep or _true
        self.identity = g is None
        self.pre = None
        self.K = None               # the filter as an uninterpreted predicate, unfolded on demand
        self.unfolded: set = set()
        self._q: dict = {}

    def keepK(self, I, q, force=False):
        """the filter condition at q.  It is the code's filter expression (possibly large: calls
        of local functions); it is unfolded for the terms that the specification names and for
        the pre-images of the members it names, and left uninterpreted (sound: less is known)
        for the Skolem terms of derived instances."""
        if self.keep is _true:
            return True
        if self.K is None:
            self.K = z3.Function(I.ctx.fresh_name("keep"), z3.RealSort(), z3.BoolSort())
        if force or I.ctx.ghost.get("fs_depth", 0) == 0:
            key = _key(q)
            if key not in self.unfolded:
                self.unfolded.add(key)
                _assume(I, self.K(q) == to_z3(self.keep(q)))
        return self.K(q)

    def member(self, I, y):
        ctx = I.ctx
        if self.identity and self.keep is _true:
            return self.pred.holds(I, y, primary=True)       # { e | E(e) }: membership is E itself
        if self.pre is None:
            self.pre = z3.Function(ctx.fresh_name("pre"), z3.RealSort(), z3.RealSort())
        q = self.pre(y)
        key = _key(y)
        if key in self._q:
            self.keepK(I, q)
            return self._q[key]
        conj = ops.b_and(self.pred.holds(I, q, primary=False), self.keepK(I, q), ops.equal(self.g(q), y))
        self._q[key] = conj
        self.pred.queries.append((self, y, conj))
        for x in list(self.pred.terms.values()):
            self._intro(I, x, y, conj)
        return conj

    def _intro(self, I, x, y, conj):
        _assume(I, _implies(ops.b_and(self.pred.P(x), self.keepK(I, x, force=True),
                                      ops.equal(self.g(x), y)), conj))

    def mapped(self, h):
        g = self.g
        return AbsComp(self.pred, lambda e: h(g(e)), self.keep)

    def filtered(self, c):
        g, keep = self.g, self.keep
        return AbsComp(self.pred, g, lambda e: ops.b_and(keep(e), c(g(e))))


# --------------------------------------------------------------------------------------------
# the set value
# --------------------------------------------------------------------------------------------
class FloatSet:
    def __init__(self, I, comps=()):
        self.I = I
        self.comps = list(comps)
        self.oid = next(_ids)
        self.terms: dict = {}
        self.observers: list = []
        self._mem: dict = {}
        self.version = 0

    # -- membership ------------------------------------------------------------------------
    def member(self, I, y, note=True):
        sync(I)
        y = _real(y)
        m = ops.b_or(*[c.member(I, y) for c in self.comps])      # (memoised per component)
        if note:
            self.note_term(I, y)
        return m

    def contains(self, x):           # `x in S`
        return self.member(self.I, x)

    def note_term(self, I, y):
        y = _real(y)
        k = _key(y)
        if k in self.terms:
            return
        # terms produced while instantiating the enumeration axiom of a sorted() for another term
        # are followed MAX_DEPTH levels deep only (cuts the unbounded Skolem chain
        # rank(y) -> T[..] -> pre(T[..]) -> ...)
        if I.ctx.ghost.get("fs_depth", 0) > MAX_DEPTH:
            return
        self.terms[k] = y
        for ob in list(self.observers):
            ob(I, y)

    def observe(self, fn):
        """fn(I, y) is called for every term that is (or has been) named as a candidate member"""
        self.observers.append(fn)
        for y in list(self.terms.values()):
            fn(self.I, y)

    def seed_terms(self, I):
        for c in self.comps:
            if isinstance(c, Single):
                self.note_term(I, c.value)

    # -- construction ------------------------------------------------------------------------
    def copy(self, I=None):
        I = I or self.I
        s = FloatSet(I, self.comps)
        # candidate terms are shared both ways (they are candidates only; membership is decided
        # by each set's own components)
        self.observe(lambda I2, y: s.note_term(I2, y))
        me = self
        s.observe(lambda I2, y: me.note_term(I2, y))
        return s

    def as_set(self, I):
        return self.copy(I)

    def snapshot(self, memo=None):
        return self.copy()

    def union(self, I, other):
        other = to_floatset(I, other)
        s = FloatSet(I, self.comps + other.comps)
        self.observe(lambda I2, y: s.note_term(I2, y))
        other.observe(lambda I2, y: s.note_term(I2, y))
        # a candidate member of the union is a candidate member of the parts
        me = self
        s.observe(lambda I2, y: (me.note_term(I2, y), other.note_term(I2, y)))
        return s

    def add(self, I, x):
        x = _real(x)
        self.comps = self.comps + [Single(x)]
        self.version += 1
        I.ctx.log_write(("floatset", self.oid), "*")
        self.note_term(I, x)

    def transformed(self, I, h=None, c=None):
        comps = self.comps
        if c is not None:
            comps = [k.filtered(c) for k in comps]
        if h is not None:
            comps = [k.mapped(h) for k in comps]
        s = FloatSet(I, comps)
        if h is None:
            self.observe(lambda I2, y: s.note_term(I2, y))
            me = self
            s.observe(lambda I2, y: me.note_term(I2, y))
        else:
            self.observe(lambda I2, y: s.note_term(I2, h(y)))
        return s

    # -- hooks used by the interpreter ---------------------------------------------------------
    def binop(self, I, op, other, reflected=False):
        if op is ast.BitOr:
            return self.union(I, other)
        raise Unsupported(f"set operator {op.__name__} on a symbolic set of floats")

    def call_method(self, I, name, args, kwargs):
        if name == "add":
            return self.add(I, args[0])
        if name == "union":
            r = self
            for a in args:
                r = r.union(I, a)
            return r if args else self.copy(I)
        if name == "copy":
            return self.copy(I)
        if name == "update":
            for a in args:
                o = to_floatset(I, a)
                self.comps = self.comps + o.comps
                self.version += 1
                me = self
                o.observe(lambda I2, y: me.note_term(I2, y))
            I.ctx.log_write(("floatset", self.oid), "*")
            return None
        raise Unsupported(f"set method .{name}() on a symbolic set of floats")

    def map_comprehension(self, I, node, gen, sub):
        """{elt for t in S if cond} (also the generator / list form, to be fed to set()/sorted())"""
        from .interp import Frame

        def bind(t):
            f2 = Frame(sub.module, sub.label, closure=sub)
            f2.in_contract_expr = sub.in_contract_expr
            f2.old_env = sub.old_env
            I.assign(gen.target, t, f2)
            return f2

        def h(t):
            f2 = bind(t)
            I.ctx.speculative += 1
            try:
                return I.eval(node.elt, f2)
            finally:
                I.ctx.speculative -= 1

        def c(t):
            f2 = bind(t)
            I.ctx.speculative += 1
            try:
                return ops.b_and(*[I.truth(I.eval(x, f2)) for x in gen.ifs])
            finally:
                I.ctx.speculative -= 1
        ident = isinstance(node.elt, ast.Name) and isinstance(gen.target, ast.Name) and \
            node.elt.id == gen.target.id
        return self.transformed(I, None if ident else h, c if gen.ifs else None)

    def sorted(self, I):
        return SortedSeq(I, self)

    def truth(self, I):
        if any(isinstance(c, Single) and c.cond is True for c in self.comps):
            return True
        if not self.comps:
            return False
        raise Unsupported("truth value (emptiness) of a symbolic set of floats")

    def havoc(self, I, name):
        return FloatSet(I, [AbsComp(AbsPred(I, name))])


def to_floatset(I, v):
    from fractions import Fraction
    if isinstance(v, FloatSet):
        return v
    if isinstance(v, (set, frozenset, list, tuple)):
        items = list(v)
        if all(isinstance(x, (int, Fraction)) or (is_z3(x) and (z3.is_real(x) or z3.is_int(x))) for x in items):
            s = FloatSet(I, [Single(_real(x)) for x in items])
            s.seed_terms(I)
            return s
        raise Unsupported("set of non-numeric symbolic members")
    if isinstance(v, FilteredSeq):
        return FloatSet(I, [RangeComp(0, v.n, v.elem, v.keep)])
    if isinstance(v, SymSeq):
        return FloatSet(I, [RangeComp(0, v.length, v.fn)])
    if hasattr(v, "as_set"):
        return v.as_set(I)
    raise Unsupported(f"set() of {type(v).__name__}")


# --------------------------------------------------------------------------------------------
# sorted(S)
# --------------------------------------------------------------------------------------------
class SortedSeq(SymSeq):
    def __init__(self, I, source: FloatSet):
        ctx = I.ctx
        n = ctx.fresh("sorted.len", "int")
        ctx.assume(n >= 0)
        self.name = ctx.fresh_name("sorted")
        self.T = z3.Function(self.name, z3.IntSort(), z3.RealSort())
        self.rank = z3.Function(ctx.fresh_name("rank"), z3.RealSort(), z3.IntSort())
        self.bis = None
        self.source = source.copy(I)       # the value of the set at the time of the call
        self.reads: dict = {}
        self.bisects: dict = {}
        self.I = I
        SymSeq.__init__(self, n, self._elem, "list")
        I.session.note("sorted(set of floats): trusted specification (strictly increasing enumeration of "
                       "exactly the members)")
        lazy(I, "sorted() of a symbolic set")
        self.source.seed_terms(I)
        self.source.observe(self._member_named)

    def inrange(self, k):
        return z3.And(to_z3(k) >= 0, to_z3(k) < self.length)

    def _elem(self, k):
        sync(self.I)
        k = to_z3(k)
        self._read(self.I, k)
        if _plain_index(k):
            self.I.saw_read(self.name, (k,))
        return self.T(k)

    def _read(self, I, k, derived=False):
        k = z3.simplify(to_z3(k))
        key = k.sexpr()
        if key in self.reads:
            if not derived and self.reads[key][1]:
                self.reads[key] = (k, False)
                self._membership(I, k)
            return
        self.reads[key] = (k, derived)
        T, inr = self.T, self.inrange
        for k2, d2 in list(self.reads.values()):
            if k2 is k or (derived and d2):
                continue        # (two Skolem ranks are not related to each other: fewer instances)
            _assume(I, z3.Implies(z3.And(inr(k), inr(k2)), (k < k2) == (T(k) < T(k2))))
        for v, p in list(self.bisects.values()):
            _assume(I, z3.Implies(inr(k), (k < p) == (T(k) < v)))
        if not derived:
            self._membership(I, k)

    def _membership(self, I, k):
        tk = self.T(k)
        m = self.source.member(I, tk, note=True)
        _assume(I, z3.Implies(self.inrange(k), z3.And(to_z3(m), self.rank(tk) == k)))

    def _is_own_app(self, y):
        return z3.is_app(y) and y.num_args() == 1 and y.decl().eq(self.T)

    def _member_named(self, I, y):
        """every member is enumerated: y in S  ==>  T[rank(y)] == y"""
        if self._is_own_app(y):
            return
        g = I.ctx.ghost
        g["fs_depth"] = g.get("fs_depth", 0) + 1
        try:
            m = self.source.member(I, y, note=False)
            if m is False:
                return
            r = self.rank(y)
            _assume(I, _implies(m, z3.And(r >= 0, r < self.length, self.T(r) == y)))
            self._read(I, r, derived=True)
        finally:
            g["fs_depth"] -= 1

    # -- specification-level queries ------------------------------------------------------------
    def has(self, I, v):
        """v occurs in the list (exact): T[rank(v)] == v with rank(v) in range"""
        v = _real(v)
        self.source.member(I, v, note=True)
        r = self.rank(v)
        self._read(I, r, derived=True)
        return z3.And(r >= 0, r < self.length, self.T(r) == v)

    def bisect_left(self, I, v):
        v = _real(v)
        key = _key(v)
        if key in self.bisects:
            return self.bisects[key][1]
        if self.bis is None:
            self.bis = z3.Function(I.ctx.fresh_name("bisect"), z3.RealSort(), z3.IntSort())
            I.session.note("bisect.bisect_left on a sorted list: trusted specification")
        p = self.bis(v)
        _assume(I, z3.And(p >= 0, p <= self.length))
        self.bisects[key] = (v, p)
        for k, _ in list(self.reads.values()):
            _assume(I, z3.Implies(self.inrange(k), (k < p) == (self.T(k) < v)))
        return p

    def havoc(self, I, name):
        raise Unsupported("havoc of a sorted list")


def bisect_left_model(I, seq, v, lo=0, hi=None):
    if isinstance(seq, SortedSeq):
        return seq.bisect_left(I, v)
    if isinstance(seq, (list, tuple)) and not is_z3(v) and all(not is_z3(x) for x in seq):
        import bisect
        return bisect.bisect_left(list(seq), v)
    raise Unsupported("bisect_left on a sequence that is not known to be sorted")


# --------------------------------------------------------------------------------------------
# [elem(k) for k in 0..n-1 if keep(k)]  over a sequence of symbolic length
# --------------------------------------------------------------------------------------------
class FilteredSeq:
    """The sub-sequence of the kept elements, in order.  Enumeration: count m, position function
    pos (strictly increasing, pos(r) kept, every kept index k is pos(rk(k)))."""

    def __init__(self, I, n, elem, keep):
        self.I, self.n, self.elem, self.keep = I, n, elem, keep
        self._nonempty = None
        self._enum = None

    def _kept(self, k):
        return ops.b_and(ops.compare(ast.GtE, k, 0), ops.compare(ast.Lt, k, self.n), self.keep(k))

    def truth(self, I):
        if self._nonempty is not None:
            return self._nonempty
        ctx = I.ctx
        ne = ctx.fresh("nonempty", "bool")
        w = ctx.fresh("witness", "int")
        _assume(I, _implies(ne, self._kept(w)))
        me = self
        add_index_axiom(I, 0, self.n, lambda k: _implies(ops.b_not(ne), ops.b_not(me.keep(k))))
        I.saw_index(w)
        self._nonempty = ne
        self.witness = w
        return ne

    def enumeration(self, I):
        if self._enum is not None:
            return self._enum
        ctx = I.ctx
        m = ctx.fresh("kept.len", "int")
        pos = z3.Function(ctx.fresh_name("pos"), z3.IntSort(), z3.IntSort())
        rk = z3.Function(ctx.fresh_name("rk"), z3.IntSort(), z3.IntSort())
        _assume(I, z3.And(m >= 0, m <= to_z3(self.n)))
        ne = self.truth(I)
        _assume(I, to_z3(ne) == (m > 0))
        me = self
        seen: dict = {}

        def item_pos(r):
            sync(I)
            r = to_z3(r)
            key = z3.simplify(r).sexpr()
            if key not in seen:
                inr = z3.And(r >= 0, r < m)
                _assume(I, z3.Implies(inr, z3.And(to_z3(me._kept(pos(r))), rk(pos(r)) == r)))
                for r2 in list(seen.values()):
                    _assume(I, z3.Implies(z3.And(inr, r2 >= 0, r2 < m), (r < r2) == (pos(r) < pos(r2))))
                seen[key] = r
            return pos(r)
        # completeness: every kept index is enumerated
        add_index_axiom(I, 0, self.n,
                        lambda k: _implies(me.keep(k), z3.And(rk(to_z3(k)) >= 0, rk(to_z3(k)) < m,
                                                              pos(rk(to_z3(k))) == to_z3(k))))
        self._enum = (m, item_pos, rk)
        return self._enum

    @property
    def length(self):
        return self.enumeration(self.I)[0]

    def position(self, r):
        return self.enumeration(self.I)[1](r)

    def iteration_domain(self, I):
        m, item_pos, _ = self.enumeration(I)
        return m, (lambda r: self.elem(item_pos(r)))

    def getitem(self, I, r):
        m, item_pos, _ = self.enumeration(I)
        return self.elem(item_pos(r))


# --------------------------------------------------------------------------------------------
# registry hooks
# --------------------------------------------------------------------------------------------
def make_set(I, r):
    return to_floatset(I, r)


def filtered_comprehension(I, node, gen, seq, sub):
    """[elt for x in seq if cond] over a sequence of symbolic length"""
    from . import tensor as T
    from .interp import Frame
    if isinstance(seq, T.LamTensor):
        n = seq.shape[0]
        src = (lambda k: T.getitem(seq, k).fn()) if seq.ndim == 1 else (lambda k: T.getitem(seq, k))
    else:
        n, src = seq.length, seq.fn

    def bind(k):
        f2 = Frame(sub.module, sub.label, closure=sub)
        f2.in_contract_expr = sub.in_contract_expr
        f2.old_env = sub.old_env
        I.assign(gen.target, src(k), f2)
        return f2

    def elem(k):
        f2 = bind(k)
        I.ctx.speculative += 1
        try:
            return I.eval(node.elt, f2)
        finally:
            I.ctx.speculative -= 1

    def keep(k):
        f2 = bind(k)
        I.ctx.speculative += 1
        try:
            return ops.b_and(*[I.truth(I.eval(c, f2)) for c in gen.ifs])
        finally:
            I.ctx.speculative -= 1
    return FilteredSeq(I, n, elem, keep)


def any_over_symseq(I, seq):
    """any(seq) over a sequence of symbolic length n: a Boolean b with
        b      ==>  seq[w] for a witness index 0 <= w < n
        not b  ==>  not seq[k] for every 0 <= k < n   (instantiated lazily: at the index terms that the
                    verification condition names and at 0, 1, 2 -- complete for n <= 3, e.g. the slice of the
                    two bisect neighbours; fewer instances only make `not b` weaker: sound)"""
    ctx = I.ctx
    n = seq.length
    b = ctx.fresh("any", "bool")
    w = ctx.fresh("w", "int")

    def elem(k):
        return to_z3(I.truth(seq.fn(k)))
    _assume(I, z3.Implies(b, z3.And(w >= 0, w < to_z3(n), elem(w))))
    add_index_axiom(I, 0, n, lambda k: _implies(z3.Not(b), z3.Not(elem(k))), extra=[0, 1, 2])
    I.saw_index(w)
    return b


def install(reg):
    """Hook the set-of-floats model into a registry (instance attributes shadow the registry's
    `unsupported` defaults)."""
    reg.sym_any = any_over_symseq
    reg.make_set = make_set
    reg.filtered_comprehension = filtered_comprehension
    reg.external["bisect.bisect_left"] = bisect_left_model
