"""Symbolic interpreter for the Python subset (expressions, statements, calls)."""
from __future__ import annotations

import ast
from fractions import Fraction

import z3

from . import ops, tensor as T
from .paths import NeedFork, PathCtx, PathEnd
from .repo import Module, Repo
from .values import (BoundMethod, BuiltinMethod, ClassRef, CplxV, EnumV, ForallV, FuncRef, Inf,
                     ModRef, Opaque, OptV, SymObj, SymSeq, Unsupported, frac_of_float, is_boolish,
                     is_num, is_z3, to_z3)


class ReturnSig(Exception):
    def __init__(self, value):
        self.value = value


class BreakSig(Exception):
    pass


class ContinueSig(Exception):
    pass


class RaiseSig(Exception):
    def __init__(self, exc: str, msg: str = "", lineno=None):
        self.exc, self.msg, self.lineno = exc, msg, lineno

    def __str__(self):
        return f"{self.exc}@{self.lineno}"


class Frame:
    def __init__(self, module: Module, label: str, closure: "Frame | None" = None):
        self.module = module
        self.label = label
        self.locals: dict[str, object] = {}
        self.closure = closure
        self.loop_ordinal = 0
        self.loop_specs: dict = {}
        self.in_contract_expr = False
        self.old_env = None
        self.yields: list | None = None
        self.cls: str | None = None           # enclosing class (for super())
        self.self_obj = None

    def lookup(self, name):
        f = self
        while f is not None:
            if name in f.locals:
                return True, f.locals[name]
            f = f.closure
        return False, None


EXTERNAL_MODULES = {"torch", "math", "os", "time", "pickle", "random", "logging", "uuid",
                    "pathlib", "copy", "itertools", "typing", "pulser", "scipy", "sys",
                    "collections", "numpy", "np"}

_MISSING = object()


class Interp:
    def __init__(self, repo: Repo, session, registry):
        self.repo = repo
        self.session = session
        self.reg = registry           # contracts, classes, call policies, intrinsics
        self.ctx: PathCtx | None = None

    # ======================================================================
    # quantified hypotheses
    #
    # A hypothesis `forall k. lo <= k < hi -> body(k)` is FROZEN when it is assumed: its body is
    # evaluated once, in the state of that moment, on placeholder constants, giving a closed z3
    # formula.  (Evaluating the body later would read whatever the program has written since --
    # the hypothesis would silently turn into a statement about the new state.)  Instances are
    # obtained by substitution, triggered E-matching style by the reads f(t) of uninterpreted
    # tensors/functions that occur in the verification condition.
    # ======================================================================
    def saw_index(self, k, _from_read=False):
        ctx = self.ctx
        if ctx.ghost.get("pattern_probe"):
            return
        if isinstance(k, bool) or not (isinstance(k, int) or (is_z3(k) and z3.is_int(k))):
            return
        if is_z3(k):
            k = z3.simplify(k)          # i + 1 - 1 and i are one index term
        key = str(k)
        terms = ctx.ghost.setdefault("index_terms", {})
        if key in terms:
            return
        terms[key] = k
        for fz in ctx.ghost.get("frozen", []):
            if not fz.triggers:
                self._instantiate_untriggered(fz)

    def saw_read(self, name, idx):
        """A read f(idx) of an uninterpreted tensor / function."""
        ctx = self.ctx
        if ctx.ghost.get("pattern_probe") or ctx.ghost.get("inst_depth", 0) >= 2:
            return
        idx = tuple(z3.simplify(to_z3(i)) if (is_z3(i) or isinstance(i, int)) else i for i in idx)
        reads = ctx.ghost.setdefault("reads", {}).setdefault(name, {})
        key = str(idx)
        if key in reads:
            return
        reads[key] = idx
        if ctx.ghost.get("inst_depth", 0) >= 1:
            ctx.ghost.setdefault("derived_reads", set()).add((name, key))   # came from an instance
        for fz in ctx.ghost.get("frozen", []):
            for trig in fz.triggers:
                if trig[0] == name:
                    self._instantiate_by_trigger(fz, trig, idx)
        for i in idx:
            if is_z3(i) and z3.is_int(i):
                self.saw_index(i, _from_read=True)

    def freeze(self, fa: ForallV):
        ctx = self.ctx
        vars_, guards = [], []
        cur = fa
        ctx.ghost["pattern_probe"] = ctx.ghost.get("pattern_probe", 0) + 1
        try:
            while True:
                ctx.fresh_n += 1
                k = z3.Int(f"{cur.label}!h{ctx.fresh_n}")
                vars_.append(k)
                guards.append(z3.And(k >= to_z3(cur.lo), k < to_z3(cur.hi)))
                body = cur.fn(k)
                if isinstance(body, ForallV):
                    cur = body
                    continue
                break
        finally:
            ctx.ghost["pattern_probe"] -= 1
        if isinstance(body, bool):
            body = z3.BoolVal(body)
        return FrozenForall(vars_, z3.And(*guards), body)

    def add_forall(self, fa: ForallV):
        ctx = self.ctx
        fz = self.freeze(fa)
        ctx.ghost.setdefault("frozen", []).append(fz)
        ctx.quantified.append(z3.ForAll(fz.vars, z3.Implies(fz.guard, fz.body)))
        if fz.triggers:
            for trig in fz.triggers:
                derived = ctx.ghost.get("derived_reads", set())
                for key, idx in list(ctx.ghost.get("reads", {}).get(trig[0], {}).items()):
                    self._instantiate_by_trigger(fz, trig, idx, chained=(trig[0], key) in derived)
        else:
            self._instantiate_untriggered(fz)

    def _instantiate_by_trigger(self, fz, trig, idx, chained=False):
        name, binding = trig
        vals = []
        chained = chained or self.ctx.ghost.get("inst_depth", 0) >= 1
        for vi in range(len(fz.vars)):
            pos, off = binding[vi]
            if pos >= len(idx):
                return
            if chained and off != 0:
                return      # reads that come from instances only fire exact (offset 0) triggers:
                            # keeps x[t] -> x[t+1] -> x[t+2] ... chains from growing
            vals.append(z3.simplify(to_z3(idx[pos]) - off))
        self._instantiate(fz, vals)

    def _instantiate_untriggered(self, fz):
        terms = list(self.ctx.ghost.get("index_terms", {}).values())
        if len(fz.vars) == 1:
            for t in terms:
                self._instantiate(fz, [to_z3(t)])
            return
        import itertools as _it
        combos = _it.product(terms, repeat=len(fz.vars))
        for n, c in enumerate(combos):
            if n > 400:
                break
            self._instantiate(fz, [to_z3(t) for t in c])

    def _instantiate(self, fz, vals):
        ctx = self.ctx
        key = str([str(v) for v in vals])
        if key in fz.done:
            return
        fz.done.add(key)
        sub = list(zip(fz.vars, vals))
        g = z3.simplify(z3.substitute(fz.guard, *sub))
        if z3.is_false(g):
            return
        inst = z3.substitute(fz.body, *sub)
        ctx.assume(z3.Implies(g, inst))
        # the instance mentions further terms: register their reads (bounded chaining) and unfold
        # ghost recursive functions at them
        ctx.ghost["inst_depth"] = ctx.ghost.get("inst_depth", 0) + 1
        try:
            self._register_apps(inst)
        finally:
            ctx.ghost["inst_depth"] -= 1

    def _register_apps(self, e):
        ctx = self.ctx
        rec = ctx.ghost.get("rec_by_name", {})
        seen = set()

        def walk(x):
            if x.get_id() in seen:
                return
            seen.add(x.get_id())
            if z3.is_app(x):
                if x.num_args() > 0 and x.decl().kind() == z3.Z3_OP_UNINTERPRETED:
                    nm = x.decl().name()
                    args = x.children()
                    if all(z3.is_int(a) for a in args):
                        if nm in rec:
                            try:
                                rec[nm](self, *args)
                            except Exception:
                                pass
                        self.saw_read(nm, tuple(args))
                for c in x.children():
                    walk(c)
        walk(e)

    # ======================================================================
    # names
    # ======================================================================
    def lookup_name(self, name: str, frame: Frame):
        found, v = frame.lookup(name)
        if found:
            return v
        if name in self.reg.ghost_funcs:
            return self.reg.ghost_funcs[name]
        v = self.module_global(frame.module, name)
        if v is not _MISSING:
            return v
        if name in BUILTIN_NAMES:
            return ModRef("builtins." + name)
        raise Unsupported(f"unbound name {name!r} in {frame.label}")

    def module_global(self, m: Module, name: str, _depth=0):
        if name in m.defs:
            node = m.defs[name]
            if isinstance(node, ast.ClassDef):
                return ClassRef(m, name)
            return FuncRef(m, name, node)
        if name in m.assigns:
            fr = Frame(m, f"{m.name}:<module>")
            return self.eval(m.assigns[name], fr)
        if name in m.imports:
            mod, attr = m.imports[name]
            root = mod.split(".")[0]
            if attr is None:
                if self.repo.has_module(mod):
                    return ModRef("repo:" + mod)
                return ModRef(mod)
            if self.repo.has_module(mod):
                r = self.repo.resolve_import(mod, attr)
                if r is not None:
                    m2, q = r
                    if q is None:
                        return ModRef("repo:" + m2.name)
                    return self.module_global(m2, q, _depth + 1)
                # imported into the repo module from outside (e.g. emu_base re-exporting pulser)
                m2 = self.repo.module(mod)
                if attr in m2.imports:
                    mod3, attr3 = m2.imports[attr]
                    return ModRef(f"{mod3}.{attr3}" if attr3 else mod3)
                return ModRef(f"{mod}.{attr}")
            return ModRef(f"{mod}.{attr}")
        return _MISSING

    # ======================================================================
    # expressions
    # ======================================================================
    def eval(self, node: ast.expr, fr: Frame):
        m = getattr(self, "e_" + type(node).__name__, None)
        if m is None:
            raise Unsupported(f"expression {type(node).__name__} at line {getattr(node, 'lineno', '?')}")
        return m(node, fr)

    def e_Constant(self, node, fr):
        v = node.value
        if isinstance(v, float):
            return frac_of_float(v)
        if isinstance(v, complex):
            return CplxV(frac_of_float(v.real), frac_of_float(v.imag))
        return v

    def e_Name(self, node, fr):
        return self.lookup_name(node.id, fr)

    def e_Tuple(self, node, fr):
        return tuple(self.eval_elts(node.elts, fr))

    def e_List(self, node, fr):
        return list(self.eval_elts(node.elts, fr))

    def e_Set(self, node, fr):
        vals = self.eval_elts(node.elts, fr)
        if all(isinstance(v, (str, int, Fraction, type(None))) for v in vals):
            return set(vals)          # concrete members ({None, "r", "1"})
        if all(is_num(v) or isinstance(v, (str, type(None))) for v in vals):
            # numeric symbolic members ({l, r}): a frozen tuple of the members -- membership tests
            # (`x in {l, r}`, see contains()) are all that is meaningful on it
            return tuple(vals)
        raise Unsupported("set display with symbolic members")

    def eval_elts(self, elts, fr):
        out = []
        for e in elts:
            if isinstance(e, ast.Starred):
                v = self.eval(e.value, fr)
                out.extend(self.iterate(v))
            else:
                out.append(self.eval(e, fr))
        return out

    def e_Dict(self, node, fr):
        d = {}
        for k, v in zip(node.keys, node.values):
            if k is None:
                d.update(self.eval(v, fr))
            else:
                kk = self.eval(k, fr)
                if is_z3(kk):
                    raise Unsupported("dict with symbolic key")
                d[kk] = self.eval(v, fr)
        return d

    def e_JoinedStr(self, node, fr):
        parts = []
        for v in node.values:
            if isinstance(v, ast.Constant):
                parts.append(str(v.value))
            else:
                parts.append("{}")
        out = FStr("".join(parts))   # A2: f-string contents are dropped (the text is "{}" per field)
        # ... but plain-name fields are kept on the side (format specs such as f"0{n}b")
        out.names = [v.value.id if isinstance(v, ast.FormattedValue) and isinstance(v.value, ast.Name)
                     else None for v in node.values if not isinstance(v, ast.Constant)]
        out.values = [fr.lookup(n)[1] if n is not None else None for n in out.names]
        return out

    def e_Lambda(self, node, fr):
        return FuncRef(fr.module, "<lambda>", node, closure=fr)

    def e_IfExp(self, node, fr):
        c = self.truth(self.eval(node.test, fr))
        if isinstance(c, bool):
            return self.eval(node.body if c else node.orelse, fr)
        # try a pure if-then-else term first
        try:
            self.ctx.speculative += 1
            try:
                a = self.eval(node.body, fr)
                b = self.eval(node.orelse, fr)
                if isinstance(a, T.LamTensor) and a.ndim == 0:
                    a = a.fn()
                if isinstance(b, T.LamTensor) and b.ndim == 0:
                    b = b.fn()
                return ops.ite(c, a, b)
            finally:
                self.ctx.speculative -= 1
        except (NeedFork, Unsupported):
            pass
        if self.ctx.branch(c):
            return self.eval(node.body, fr)
        return self.eval(node.orelse, fr)

    def e_BoolOp(self, node, fr):
        return self.boolop(isinstance(node.op, ast.And), node.values, fr)

    def boolop(self, is_and, vals, fr):
        """Python semantics: `a and b` is `a` if a is falsy else `b` (short-circuit)."""
        first = self.eval(vals[0], fr)
        if len(vals) == 1:
            return first
        t = self.truth(first)
        if isinstance(t, bool):
            if t == is_and:
                return self.boolop(is_and, vals[1:], fr)
            return first
        # symbolic first operand: evaluate the rest purely if possible (no fork) ...
        try:
            self.ctx.speculative += 1
            try:
                rest = self.boolop(is_and, vals[1:], fr)
            finally:
                self.ctx.speculative -= 1
            if is_boolish(rest):
                return ops.b_and(t, rest) if is_and else ops.b_or(t, rest)
        except NeedFork:
            pass
        # ... else fork on it
        if self.ctx.branch(t if is_and else ops.b_not(t)):
            return self.boolop(is_and, vals[1:], fr)
        return (not is_and) if is_boolish(first) else first

    def e_UnaryOp(self, node, fr):
        v = self.eval(node.operand, fr)
        if isinstance(node.op, ast.Not):
            return ops.b_not(self.truth(v))
        if isinstance(node.op, ast.USub):
            if isinstance(v, T.LamTensor):
                return T.unary(ops.neg, v)
            return ops.neg(v)
        if isinstance(node.op, ast.UAdd):
            return v
        if isinstance(node.op, ast.Invert) and isinstance(v, T.LamTensor) and v.dtype == "bool":
            return T.unary(ops.b_not, v, "bool")
        raise Unsupported(f"unary {type(node.op).__name__}")

    def e_BinOp(self, node, fr):
        a = self.eval(node.left, fr)
        b = self.eval(node.right, fr)
        return self.binop(type(node.op), a, b, node)

    def binop(self, op, a, b, node=None):
        if getattr(a, "binop_first", False):    # abstract operands that absorb tensors too (contracts/krylov.py)
            return a.binop(self, op, b, False)
        if getattr(b, "binop_first", False):
            return b.binop(self, op, a, True)
        if isinstance(a, T.LamTensor) or isinstance(b, T.LamTensor):
            return self.tensor_binop(op, a, b)
        if isinstance(a, OptV) or isinstance(b, OptV):
            a, b = self.unwrap_opt(a), self.unwrap_opt(b)
        if hasattr(a, "binop"):             # value classes with their own operators (pyvc/floatsets.py)
            return a.binop(self, op, b, False)
        if hasattr(b, "binop"):
            return b.binop(self, op, a, True)
        if op is ast.BitOr and isinstance(a, (set, frozenset)) and isinstance(b, (set, frozenset)):
            return set(a) | set(b)
        if op is ast.BitAnd and is_boolish(a) and is_boolish(b):
            return ops.b_and(a, b)
        if op is ast.BitOr and is_boolish(a) and is_boolish(b):
            return ops.b_or(a, b)
        if op is ast.Add:
            if isinstance(a, str) and isinstance(b, str):
                return a + b
            if isinstance(a, (list, tuple)) and isinstance(b, type(a)):
                return a + b
            if isinstance(a, Opaque) or isinstance(b, Opaque):
                return self.opaque_result("binop", a, b)
            return ops.add(a, b)
        if isinstance(a, Opaque) or isinstance(b, Opaque):
            return self.opaque_result("binop", a, b)
        if op is ast.Sub:
            return ops.sub(a, b)
        if op is ast.Mult:
            if isinstance(a, (list, tuple, str)) and isinstance(b, int):
                return a * b
            return ops.mul(a, b)
        if op is ast.Div:
            return self.divide(a, b)
        if op is ast.FloorDiv:
            self.require_positive(b, "floor-division")
            return ops.floordiv_raw(a, b)
        if op is ast.Mod:
            if isinstance(a, str):
                return a
            self.require_positive(b, "modulo")
            return ops.mod_raw(a, b)
        if op is ast.Pow:
            if is_z3(b) and getattr(self.reg, "sym_power", None) is not None:
                return self.reg.sym_power(self, a, b)     # symbolic exponent: a ghost function of the contracts
            return ops.power(a, b)
        if op is ast.MatMult:
            raise Unsupported("@ on non-tensors")
        if op in (ast.LShift, ast.RShift, ast.BitXor, ast.BitAnd, ast.BitOr) and \
                isinstance(a, int) and isinstance(b, int):
            import operator as _op
            return {ast.LShift: _op.lshift, ast.RShift: _op.rshift, ast.BitXor: _op.xor,
                    ast.BitAnd: _op.and_, ast.BitOr: _op.or_}[op](a, b)
        raise Unsupported(f"binary operator {op.__name__}")

    def unwrap_opt(self, v):
        if isinstance(v, OptV):
            if self.ctx.entails(ops.b_not(v.is_none)):
                return v.val
            if self.ctx.branch(v.is_none):
                raise RaiseSig("TypeError", "None used as a number", self.ctx.cur_line)
            return v.val
        return v

    def require_positive(self, b, what):
        if isinstance(b, (int, Fraction)):
            if b <= 0:
                raise Unsupported(f"{what} by a non-positive constant")
            return
        if not self.ctx.entails(to_z3(b) > 0):
            raise Unsupported(f"{what}: divisor not provably positive")

    def divide(self, a, b):
        """Python float `/`: raises ZeroDivisionError on a zero denominator."""
        if isinstance(b, CplxV):
            z = ops.b_and(ops.equal(b.re, 0), ops.equal(b.im, 0))
        else:
            z = ops.equal(ops.num(b), 0)
        if isinstance(z, bool):
            if z:
                raise RaiseSig("ZeroDivisionError", "division by zero", self.ctx.cur_line)
        else:
            if self.ctx.speculative:
                if not self.ctx.entails(z3.Not(z)):
                    raise NeedFork()
            elif self.ctx.branch(z):
                raise RaiseSig("ZeroDivisionError", "division by zero", self.ctx.cur_line)
        return ops.truediv_raw(a, b)

    def tensor_binop(self, op, a, b):
        ctx = self.ctx
        if op is ast.MatMult:
            if (isinstance(a, T.LamTensor) and isinstance(b, T.LamTensor) and a.ndim == 2 and b.ndim == 2
                    and not (isinstance(a.shape[1], int) and isinstance(b.shape[0], int))):
                # contraction over a symbolic dimension: only the shape is known (A4)
                self.session.note("matrix product over a symbolic dimension: entries uninterpreted, shape exact")
                return self.reg.sym_tensor(self, self.ctx.fresh_name("matmul"), (a.shape[0], b.shape[1]))
            return T.matmul(a, b)
        table = {ast.Add: ops.add, ast.Sub: ops.sub, ast.Mult: ops.mul}
        if op in table:
            return T.elementwise(table[op], a, b, ctx)
        if op is ast.Div:
            # torch semantics: no exception; the denominators are recorded so that properties
            # that need them non-zero (C30) can ask.  x/0 stays an unconstrained z3 division.
            def dv(x, y):
                self.ctx.ghost.setdefault("tensor_denominators", []).append((ops.b_and(*T.GUARDS), y))
                return ops.truediv_raw(x, y)
            return T.elementwise(dv, a, b, ctx, dtype="real" if "complex" not in (
                getattr(a, "dtype", ""), getattr(b, "dtype", "")) else "complex")
        if op is ast.BitAnd:
            return T.elementwise(ops.b_and, a, b, ctx, dtype="bool")
        if op is ast.BitOr:
            return T.elementwise(ops.b_or, a, b, ctx, dtype="bool")
        if op is ast.Pow and isinstance(b, int):
            return T.unary(lambda x: ops.power(x, b), a)
        raise Unsupported(f"tensor operator {op.__name__}")

    def e_Compare(self, node, fr):
        left = self.eval(node.left, fr)
        acc = True
        for op, rn in zip(node.ops, node.comparators):
            right = self.eval(rn, fr)
            c = self.compare1(op, left, right)
            if isinstance(c, T.LamTensor) and c.ndim == 0:
                c = c.fn()          # comparison of 0-d tensors: a scalar truth value
            acc = ops.b_and(acc, c) if not isinstance(c, T.LamTensor) else c
            if acc is False:
                return False
            left = right
        return acc

    def compare1(self, op, a, b):
        t = type(op)
        if t in (ast.Is, ast.IsNot):
            r = self.identical(a, b)
            return r if t is ast.Is else ops.b_not(r)
        if t in (ast.In, ast.NotIn):
            r = self.contains(b, a)
            return r if t is ast.In else ops.b_not(r)
        if isinstance(a, T.LamTensor) or isinstance(b, T.LamTensor):
            return T.elementwise(lambda x, y: ops.compare(t, x, y), a, b, self.ctx, dtype="bool")
        if t in (ast.Eq, ast.NotEq) and (hasattr(a, "eq_empty") or hasattr(b, "eq_empty")):
            sv, other = (a, b) if hasattr(a, "eq_empty") else (b, a)
            if isinstance(other, (set, frozenset)) and not other:
                r = sv.eq_empty(self)
                return r if t is ast.Eq else ops.b_not(r)
            raise Unsupported("comparison of a symbolic set with a non-empty set")
        if t in (ast.Eq, ast.NotEq) and (isinstance(a, SymSeq) or isinstance(b, SymSeq)):
            sv, other = (a, b) if isinstance(a, SymSeq) else (b, a)
            if isinstance(other, (tuple, list)) and not other:
                r = ops.equal(sv.length, 0)
                return r if t is ast.Eq else ops.b_not(r)
            raise Unsupported("comparison of a symbolic-length sequence")
        if isinstance(a, Opaque) or isinstance(b, Opaque):
            return self.opaque_bool("compare", a, b, t.__name__)
        return ops.compare(t, a, b)

    def identical(self, a, b):
        if getattr(a, "identity_semantics", False) or getattr(b, "identity_semantics", False):
            return a is b           # abstract values of contract files that are compared by identity
        if isinstance(a, OptV) and b is None:
            return a.is_none
        if isinstance(b, OptV) and a is None:
            return b.is_none
        if a is None or b is None:
            if isinstance(a, Opaque) or isinstance(b, Opaque):
                o = a if isinstance(a, Opaque) else b
                return self.opaque_attr_bool(o, "__is_none__")
            return a is None and b is None
        if isinstance(a, EnumV) and isinstance(b, EnumV):
            return ops.equal(a, b)
        if isinstance(a, bool) and isinstance(b, bool):
            return a == b
        if isinstance(a, (SymObj, Opaque, T.LamTensor)) or isinstance(b, (SymObj, Opaque, T.LamTensor)):
            return a is b
        return ops.equal(a, b)

    def contains(self, container, x):
        if isinstance(container, (set, frozenset, list, tuple)):
            if not is_z3(x) and all(not is_z3(c) and not isinstance(c, (SymObj, Opaque, EnumV))
                                    for c in container) and not isinstance(x, (SymObj, Opaque, EnumV)):
                return any(ops.equal(c, x) is True for c in container)
            return ops.b_or(*[ops.equal(c, x) for c in container])
        if isinstance(container, dict):
            if is_z3(x):
                return ops.b_or(*[ops.equal(c, x) for c in container])
            return x in container
        if isinstance(container, str) and isinstance(x, str):
            return x in container
        if isinstance(container, (Opaque, SymSeq)):
            return self.opaque_bool("contains", container, x, "in")
        if hasattr(container, "contains"):
            return container.contains(x)
        raise Unsupported(f"`in` on {type(container).__name__}")

    # -- opaque helpers ----------------------------------------------------
    def opaque_result(self, what, *args):
        self.session.note(f"opaque {what} on unmodelled values (result unconstrained)")
        return Opaque(self.ctx.fresh_name(what))

    def opaque_bool(self, what, a, b, opname):
        self.session.note(f"opaque {what}: truth value unconstrained")
        return self.ctx.fresh(what, "bool")

    def opaque_attr_bool(self, o: Opaque, key: str):
        if key not in o.attrs:
            o.attrs[key] = self.ctx.fresh(f"{o.name}.{key}", "bool")
        return o.attrs[key]

    # -- truthiness --------------------------------------------------------
    def truth(self, v):
        if isinstance(v, bool) or (is_z3(v) and z3.is_bool(v)):
            return v
        if v is None:
            return False
        if isinstance(v, (int, Fraction)):
            return v != 0
        if is_z3(v) and (z3.is_int(v) or z3.is_real(v)):
            return v != 0
        if isinstance(v, (str, list, tuple, dict, set, frozenset)):
            return len(v) > 0
        if isinstance(v, OptV):
            return ops.b_and(ops.b_not(v.is_none), self.truth(v.val))
        if isinstance(v, SymSeq):
            return to_z3(v.length) > 0
        if isinstance(v, (SymObj, FuncRef, ClassRef, BoundMethod, EnumV)):
            return True
        if isinstance(v, Opaque):
            return self.opaque_attr_bool(v, "__truth__")
        if isinstance(v, T.LamTensor):
            if v.ndim == 0:
                return self.truth(v.fn())
            raise Unsupported("truth value of a non-scalar tensor")
        if is_z3(v) and z3.is_string(v):
            return z3.Length(v) > 0
        if isinstance(v, Inf):
            return True
        if hasattr(v, "truth"):
            return v.truth(self)
        raise Unsupported(f"truth value of {type(v).__name__}")

    # -- comprehensions ----------------------------------------------------
    def e_ListComp(self, node, fr):
        return self.comprehension(node, fr, "list")

    def e_GeneratorExp(self, node, fr):
        return self.comprehension(node, fr, "list")

    def e_SetComp(self, node, fr):
        r = self.comprehension(node, fr, "list")
        if isinstance(r, list) and all(isinstance(v, (str, int, Fraction)) for v in r):
            return set(r)
        return self.reg.make_set(self, r)

    def e_DictComp(self, node, fr):
        out = {}
        sub = Frame(fr.module, fr.label, closure=fr)

        def rec(gi):
            if gi == len(node.generators):
                k = self.eval(node.key, sub)
                if is_z3(k):
                    raise Unsupported("dict comprehension with symbolic key")
                out[k] = self.eval(node.value, sub)
                return
            g = node.generators[gi]
            for item in self.iterate(self.eval(g.iter, sub)):
                self.assign(g.target, item, sub)
                if all(self.ctx.branch(self.truth(self.eval(c, sub))) for c in g.ifs):
                    rec(gi + 1)
        rec(0)
        return out

    def comprehension(self, node, fr, kind):
        sub = Frame(fr.module, fr.label, closure=fr)
        sub.in_contract_expr = fr.in_contract_expr
        sub.old_env = fr.old_env
        gens = node.generators
        if len(gens) == 1:
            it = self.eval(gens[0].iter, sub)
            if hasattr(it, "map_comprehension"):     # symbolic sets (pyvc/floatsets.py)
                return it.map_comprehension(self, node, gens[0], sub)
            if hasattr(it, "as_symseq"):             # range() with symbolic bounds
                it = it.as_symseq()
            if isinstance(it, (SymSeq, T.LamTensor)) and not (
                    isinstance(it, T.LamTensor) and isinstance(it.shape[0], int)):
                return self.symbolic_comprehension(node, gens[0], it, sub)
        out = []

        def rec(gi):
            if gi == len(gens):
                out.append(self.eval(node.elt, sub))
                return
            g = gens[gi]
            for item in self.iterate(self.eval(g.iter, sub)):
                self.assign(g.target, item, sub)
                ok = True
                for c in g.ifs:
                    if not self.ctx.branch(self.truth(self.eval(c, sub))):
                        ok = False
                        break
                if ok:
                    rec(gi + 1)
        rec(0)
        return out

    def symbolic_comprehension(self, node, gen, seq, sub):
        """[elt for x in seq] over a sequence of symbolic length: a mapped SymSeq
        (element expression evaluated purely, per index, on demand)."""
        if isinstance(seq, T.LamTensor):
            length, src = seq.shape[0], (lambda k: T.getitem(seq, k).fn() if seq.ndim == 1
                                         else T.getitem(seq, k))
        else:
            length, src = seq.length, seq.fn
        if gen.ifs:
            return self.reg.filtered_comprehension(self, node, gen, seq, sub)
        interp = self

        def fn(k):
            f2 = Frame(sub.module, sub.label, closure=sub)
            interp.assign(gen.target, src(k), f2)
            interp.ctx.speculative += 1
            try:
                return interp.eval(node.elt, f2)
            finally:
                interp.ctx.speculative -= 1
        return SymSeq(length, fn)

    # -- iteration ---------------------------------------------------------
    def iterate(self, v):
        if isinstance(v, (list, tuple)):
            return list(v)
        if isinstance(v, (set, frozenset)):
            return sorted(v, key=repr)
        if isinstance(v, dict):
            return list(v.keys())
        if isinstance(v, str):
            return list(v)
        if isinstance(v, range):
            return list(v)
        if isinstance(v, T.LamTensor):
            n = v.shape[0]
            if isinstance(n, int):
                return [self.tensor_elem(v, k) for k in range(n)]
            raise Unsupported("iteration over a tensor of symbolic length needs a loop invariant")
        if isinstance(v, SymSeq):
            raise Unsupported("iteration over a sequence of symbolic length needs a loop invariant")
        raise Unsupported(f"iteration over {type(v).__name__}")

    def tensor_elem(self, t, k):
        r = T.getitem(t, k, self.ctx)
        return r

    # -- attribute / subscript --------------------------------------------
    def e_Attribute(self, node, fr):
        obj = self.eval(node.value, fr)
        return self.getattr(obj, node.attr, fr)

    def e_Subscript(self, node, fr):
        obj = self.eval(node.value, fr)
        idx = self.eval_index(node.slice, fr)
        return self.getitem(obj, idx)

    def eval_index(self, node, fr):
        if isinstance(node, ast.Slice):
            return T.SliceV(None if node.lower is None else self.eval(node.lower, fr),
                            None if node.upper is None else self.eval(node.upper, fr),
                            None if node.step is None else self.eval(node.step, fr))
        if isinstance(node, ast.Tuple):
            return tuple(self.eval_index(e, fr) for e in node.elts)
        return self.eval(node, fr)

    def e_Slice(self, node, fr):
        return self.eval_index(node, fr)

    def e_Starred(self, node, fr):
        raise Unsupported("starred expression outside a call/display")

    def e_NamedExpr(self, node, fr):
        v = self.eval(node.value, fr)
        self.assign(node.target, v, fr)
        return v

    # ======================================================================
    # attribute access
    # ======================================================================
    def getattr(self, obj, name: str, fr: Frame | None = None):
        if isinstance(obj, SymObj):
            return self.obj_getattr(obj, name)
        if isinstance(obj, SuperV):
            return self.super_getattr(obj, name)
        if isinstance(obj, Opaque):
            if name not in obj.attrs:
                obj.attrs[name] = Opaque(f"{obj.name}.{name}")
            return obj.attrs[name]
        if isinstance(obj, ModRef):
            return self.modref_attr(obj, name)
        if isinstance(obj, ClassRef):
            return self.class_attr(obj, name)
        if isinstance(obj, T.LamTensor):
            return self.reg.tensor_attr(self, obj, name)
        if isinstance(obj, OptV):
            if self.ctx.branch(obj.is_none):
                raise RaiseSig("AttributeError", f"None.{name}", self.ctx.cur_line)
            return self.getattr(obj.val, name, fr)
        if isinstance(obj, CplxV):
            if name == "real":
                return obj.re
            if name == "imag":
                return obj.im
        if is_num(obj) and name in ("real",):
            return obj
        if isinstance(obj, EnumV) and name in ("value", "name"):
            return obj.member
        if obj is None:
            raise RaiseSig("AttributeError", f"None.{name}", self.ctx.cur_line)
        return BuiltinMethod(obj, name)

    def obj_getattr(self, obj: SymObj, name: str):
        if name in obj.fields:
            return obj.fields[name]
        if name == "__dict__":
            return obj.fields
        found = self.find_class_member(obj, name)
        if found is not None:
            mod, cls, member = found
            if isinstance(member, ast.FunctionDef):
                decos = [d.id for d in member.decorator_list if isinstance(d, ast.Name)]
                fref = FuncRef(mod, f"{cls.name}.{name}", member)
                if "property" in decos:
                    return self.call_function(fref, [obj], {})
                if "staticmethod" in decos:
                    return fref
                return BoundMethod(obj, fref)
            # class-level attribute default
            return self.eval(member, Frame(mod, f"{mod.name}:{cls.name}"))
        spec = self.reg.classes.get(obj.cls)
        if spec and spec.get("getattr_dict") and spec["getattr_dict"] in obj.fields:
            d = obj.fields[spec["getattr_dict"]]
            if isinstance(d, dict) and name in d:
                return d[name]
        if spec and name in spec.get("lazy_fields", {}):
            v = self.reg.make_value(self, spec["lazy_fields"][name], f"{obj.cls}.{name}")
            obj.fields[name] = v
            return v
        if spec and spec.get("open", False):
            v = Opaque(f"{obj.cls}#{obj.oid}.{name}")
            obj.fields[name] = v
            return v
        raise RaiseSig("AttributeError", f"{obj.cls}.{name}", self.ctx.cur_line)

    def super_getattr(self, sv, name):
        mro = self.repo.class_mro(sv.module, sv.cls)
        for mod, cls in mro[1:]:
            for node in cls.body:
                if isinstance(node, ast.FunctionDef) and node.name == name:
                    return BoundMethod(sv.obj, FuncRef(mod, f"{cls.name}.{name}", node))
        # first base outside the repo: external method (modelled by the registry)
        base = self.reg.external_base_of(self, sv.module, mro[-1][1] if mro else None)
        return ExternalMethod(sv.obj, base, name)

    def find_class_member(self, obj: SymObj, name: str):
        if obj.module is None or not self.repo.has_module(obj.module):
            return None
        m = self.repo.module(obj.module)
        for mod, cls in self.repo.class_mro(m, obj.cls):
            for node in cls.body:
                if isinstance(node, ast.FunctionDef) and node.name == name:
                    return mod, cls, node
                if isinstance(node, ast.Assign) and len(node.targets) == 1 and \
                        isinstance(node.targets[0], ast.Name) and node.targets[0].id == name:
                    return mod, cls, node.value
                if isinstance(node, ast.AnnAssign) and isinstance(node.target, ast.Name) and \
                        node.target.id == name and node.value is not None:
                    return mod, cls, node.value
        return None

    def class_attr(self, cref: ClassRef, name: str):
        cls = cref.module.classes[cref.name]
        if self.is_enum_class(cref):
            for node in cls.body:
                if isinstance(node, ast.Assign) and isinstance(node.targets[0], ast.Name) and \
                        node.targets[0].id == name:
                    return EnumV(cref.name, name)
        for mod, c in self.repo.class_mro(cref.module, cref.name):
            for node in c.body:
                if isinstance(node, ast.FunctionDef) and node.name == name:
                    return FuncRef(mod, f"{c.name}.{name}", node)
                if isinstance(node, ast.Assign) and isinstance(node.targets[0], ast.Name) and \
                        node.targets[0].id == name:
                    return self.eval(node.value, Frame(mod, f"{mod.name}:{c.name}"))
        # additive: a class method inherited from a base outside the repo may be modelled as
        # reg.external["<Class>.<name>"] (e.g. pulser State.from_state_amplitudes)
        ext = self.reg.external.get(f"{cref.name}.{name}")
        if ext is not None:
            return lambda I, *a, **k: ext(I, *a, **k)
        raise Unsupported(f"class attribute {cref.name}.{name}")

    def is_enum_class(self, cref: ClassRef) -> bool:
        cls = cref.module.classes[cref.name]
        return any(isinstance(b, ast.Name) and b.id in ("Enum", "IntEnum") for b in cls.bases)

    def modref_attr(self, mref: ModRef, name: str):
        d = mref.dotted
        if d.startswith("repo:"):
            modname = d[5:]
            if self.repo.has_module(modname + "." + name):
                return ModRef("repo:" + modname + "." + name)
            m = self.repo.module(modname)
            v = self.module_global(m, name)
            if v is _MISSING:
                raise Unsupported(f"{modname}.{name} not found")
            return v
        full = f"{d}.{name}"
        const = self.reg.external_constant(full)
        if const is not _MISSING:
            return const
        return ModRef(full)

    # ======================================================================
    # subscripts
    # ======================================================================
    def getitem(self, obj, idx):
        ctx = self.ctx
        if isinstance(obj, T.LamTensor):
            idx2 = self.tensor_index(obj, idx)
            r = T.getitem(obj, idx2, ctx)
            return r
        if isinstance(obj, (list, tuple, str)):
            if isinstance(idx, T.SliceV):
                s = slice(idx.start, idx.stop, idx.step)
                if any(is_z3(x) for x in (idx.start, idx.stop, idx.step)):
                    raise Unsupported("symbolic slice of a python sequence")
                return obj[s]
            if isinstance(idx, bool):
                idx = int(idx)
            if isinstance(idx, int):
                if not -len(obj) <= idx < len(obj):
                    raise RaiseSig("IndexError", "sequence index out of range", ctx.cur_line)
                return obj[idx]
            if is_z3(idx) and z3.is_int(idx):
                n = len(obj)
                inb = z3.And(idx >= -n, idx < n)
                if not ctx.branch(inb):
                    raise RaiseSig("IndexError", "sequence index out of range", ctx.cur_line)
                k = z3.If(idx < 0, idx + n, idx)
                return self.select_list(list(obj), k)
            if isinstance(idx, T.LamTensor) and idx.ndim == 0:
                return self.getitem(obj, idx.fn())
            raise Unsupported(f"index of type {type(idx).__name__} into a python sequence")
        if isinstance(obj, dict):
            if is_z3(idx):
                raise Unsupported("symbolic dict key")
            if idx not in obj:
                raise RaiseSig("KeyError", repr(idx), ctx.cur_line)
            return obj[idx]
        if isinstance(obj, SymSeq):
            if isinstance(idx, T.LamTensor) and idx.ndim == 0:
                idx = idx.fn()          # 0-d index tensor (e.g. perm[k]) -> its element
            if isinstance(idx, T.SliceV):
                st, ln = T.slice_bounds(idx, obj.length)
                return SymSeq(ln, (lambda st: lambda k: obj.fn(ops.add(st, k)))(st), obj.kind)
            k = T.norm_index(idx, obj.length)
            inb = ops.b_and(ops.compare(ast.GtE, k, 0), ops.compare(ast.Lt, k, obj.length))
            if not ctx.speculative and not ctx.branch(inb):
                raise RaiseSig("IndexError", "sequence index out of range", ctx.cur_line)
            return obj.fn(k)
        if isinstance(obj, Opaque):
            key = f"[{idx!r}]"
            if key not in obj.attrs:
                obj.attrs[key] = Opaque(f"{obj.name}{key}")
            return obj.attrs[key]
        if isinstance(obj, (ModRef, ClassRef)):
            return obj        # typing generics such as Counter[str]
        if hasattr(obj, "getitem"):
            return obj.getitem(self, idx)
        raise Unsupported(f"subscript of {type(obj).__name__}")

    def select_list(self, items, k):
        if not items:
            raise Unsupported("select from an empty list")
        if all(is_num(x) or is_boolish(x) for x in items):
            out = items[-1]
            for j in range(len(items) - 2, -1, -1):
                out = ops.ite(k == j, items[j], out)
            return out
        # non-scalar items: fork over the position
        for j in range(len(items) - 1):
            if self.ctx.branch(k == j):
                return items[j]
        return items[-1]

    def tensor_index(self, t, idx):
        """Convert python-list indices / 0-d tensors into index values."""
        def conv(i):
            if isinstance(i, T.LamTensor) and i.ndim == 0:
                return i.fn()
            if isinstance(i, list):
                return T.from_nested(i, "bool" if i and isinstance(i[0], bool) else "int")
            return i
        if isinstance(idx, tuple):
            return tuple(conv(i) for i in idx)
        return conv(idx)

    # ======================================================================
    # assignment
    # ======================================================================
    def assign(self, target, value, fr: Frame):
        if isinstance(target, ast.Name):
            fr.locals[target.id] = value
        elif isinstance(target, (ast.Tuple, ast.List)):
            items = self.unpack(value, len(target.elts))
            for t, v in zip(target.elts, items):
                self.assign(t, v, fr)
        elif isinstance(target, ast.Attribute):
            obj = self.eval(target.value, fr)
            self.setattr(obj, target.attr, value)
        elif isinstance(target, ast.Subscript):
            obj = self.eval(target.value, fr)
            idx = self.eval_index(target.slice, fr)
            self.setitem(obj, idx, value)
        elif isinstance(target, ast.Starred):
            raise Unsupported("starred assignment target")
        else:
            raise Unsupported(f"assignment target {type(target).__name__}")

    def unpack(self, value, n):
        if isinstance(value, (tuple, list)):
            if len(value) != n:
                raise RaiseSig("ValueError", "unpack length mismatch", self.ctx.cur_line)
            return list(value)
        if isinstance(value, T.LamTensor) and isinstance(value.shape[0], int) and value.shape[0] == n:
            return [T.getitem(value, k) for k in range(n)]
        if isinstance(value, Opaque):
            return [self.getitem(value, k) for k in range(n)]
        raise Unsupported(f"unpacking {type(value).__name__}")

    def setattr(self, obj, name, value):
        if self.ctx.speculative:
            raise NeedFork()
        if isinstance(obj, SymObj):
            if obj.frozen:
                raise RaiseSig("FrozenInstanceError", name, self.ctx.cur_line)
            obj.fields[name] = value
            self.ctx.log_write(obj.oid, name)
            return
        if isinstance(obj, Opaque):
            obj.attrs[name] = value
            self.ctx.log_write(obj.oid, name)
            return
        raise Unsupported(f"attribute store on {type(obj).__name__}")

    def setitem(self, obj, idx, value):
        if self.ctx.speculative:
            raise NeedFork()
        if isinstance(obj, T.LamTensor):
            if isinstance(value, T.LamTensor) and value.ndim == 0:
                value = value.fn()
            T.setitem(obj, self.tensor_index(obj, idx), value, self.ctx)
            self.ctx.log_write(("tensor", obj.tid), "*")
            return
        if isinstance(obj, list):
            if isinstance(idx, int):
                if not -len(obj) <= idx < len(obj):
                    raise RaiseSig("IndexError", "list assignment index out of range", self.ctx.cur_line)
                obj[idx] = value
                self.ctx.log_write(("list", id(obj)), "*")
                return
            if isinstance(idx, T.SliceV) and not any(is_z3(x) for x in (idx.start, idx.stop, idx.step)):
                obj[slice(idx.start, idx.stop, idx.step)] = self.iterate(value)
                self.ctx.log_write(("list", id(obj)), "*")
                return
            raise Unsupported("symbolic index store into a python list")
        if isinstance(obj, dict):
            if is_z3(idx):
                raise Unsupported("symbolic dict key store")
            obj[idx] = value
            self.ctx.log_write(("dict", id(obj)), "*")
            return
        if hasattr(obj, "setitem"):
            return obj.setitem(self, idx, value)
        if isinstance(obj, Opaque):
            obj.attrs[f"[{idx!r}]"] = value
            return
        raise Unsupported(f"item store on {type(obj).__name__}")

    # ======================================================================
    # calls
    # ======================================================================
    def e_Call(self, node, fr):
        f = node.func
        if isinstance(f, ast.Name):
            nm = f.id
            if fr.in_contract_expr or self._in_contract(fr):
                if nm == "old":
                    env = self._old_env(fr)
                    if env is None:
                        raise Unsupported("old() outside a postcondition")
                    return self.eval(node.args[0], env)
                if nm == "forall":
                    lam = node.args[0]
                    lo = self.eval(node.args[1], fr)
                    hi = self.eval(node.args[2], fr)
                    if not isinstance(lam, ast.Lambda):
                        raise Unsupported("forall needs a lambda")
                    return self.make_forall(lam, lo, hi, fr)
                if nm == "implies":
                    a = self.truth(self.eval(node.args[0], fr))
                    if a is False:
                        return True
                    b = self.eval(node.args[1], fr)
                    if isinstance(b, ForallV):
                        inner = b
                        return ForallV(lambda k: ops.b_implies(a, inner.fn(k)), b.lo, b.hi, b.label)
                    return ops.b_implies(a, self.truth(b))
            if nm == "super" and not node.args:
                return SuperV(fr_self(fr), fr_cls(fr), fr_module(fr))
        callee = self.eval(f, fr)
        args = self.eval_elts(node.args, fr)
        kwargs = {}
        for kw in node.keywords:
            if kw.arg is None:
                d = self.eval(kw.value, fr)
                if not isinstance(d, dict):
                    raise Unsupported("** of a non-dict")
                kwargs.update(d)
            else:
                kwargs[kw.arg] = self.eval(kw.value, fr)
        return self.call(callee, args, kwargs, fr)

    def _in_contract(self, fr):
        f = fr
        while f is not None:
            if f.in_contract_expr:
                return True
            f = f.closure
        return False

    def _old_env(self, fr):
        f = fr
        while f is not None:
            if f.old_env is not None:
                return f.old_env
            f = f.closure
        return None

    def make_forall(self, lam: ast.Lambda, lo, hi, fr):
        var = lam.args.args[0].arg
        interp = self

        def fn(k):
            f2 = Frame(fr.module, fr.label, closure=fr)
            f2.in_contract_expr = True
            f2.locals[var] = k
            interp.ctx.speculative += 1
            try:
                r = interp.eval(lam.body, f2)
            except NeedFork:
                raise Unsupported("quantified contract clause is not a pure term (it mentions a value the "
                                  "encoding knows nothing about, e.g. the result of an unmodelled call)")
            finally:
                interp.ctx.speculative -= 1
            if isinstance(r, ForallV):
                return r
            return interp.truth(r)
        return ForallV(fn, lo, hi, var)

    def call(self, callee, args, kwargs, fr=None):
        if isinstance(callee, FuncRef):
            return self.call_function(callee, args, kwargs)
        if isinstance(callee, BoundMethod):
            return self.call_function(callee.func, [callee.obj] + list(args), kwargs)
        if isinstance(callee, ClassRef):
            return self.instantiate(callee, args, kwargs)
        if isinstance(callee, ModRef):
            return self.reg.call_external(self, callee.dotted, args, kwargs, fr)
        if isinstance(callee, BuiltinMethod):
            return self.reg.call_method(self, callee.obj, callee.name, args, kwargs)
        if isinstance(callee, Opaque):
            return self.reg.call_opaque(self, callee, args, kwargs)
        if isinstance(callee, ExternalMethod):
            return self.reg.call_external(self, f"{callee.base}.{callee.name}",
                                          [callee.obj] + list(args), kwargs, fr)
        if isinstance(callee, SymObj):
            m = self.find_class_member(callee, "__call__")
            if m is not None:
                mod, cls, node = m
                return self.call_function(FuncRef(mod, f"{cls.name}.__call__", node),
                                          [callee] + list(args), kwargs)
            raise Unsupported(f"call of a {callee.cls} instance")
        if callable(callee):
            return callee(self, *args, **kwargs)       # ghost / spec function
        raise Unsupported(f"call of {type(callee).__name__}")

    def call_function(self, fref: FuncRef, args, kwargs):
        if fref.closure is not None or isinstance(fref.node, ast.Lambda):
            return self.exec_function(fref, args, kwargs)
        policy, payload = self.reg.policy(fref)
        if policy == "inline":
            return self.exec_function(fref, args, kwargs)
        if policy == "model" and getattr(payload, "pure", False):
            return payload(self, *args, **kwargs)      # side-effect free model: fine in pure evaluation
        if self.ctx.speculative and policy != "pure":
            raise NeedFork()
        if policy == "contract":
            return self.reg.apply_contract(self, payload, fref, args, kwargs)
        if policy == "model":
            return payload(self, *args, **kwargs)
        self.session.note(f"opaque call: {fref.key} (result unconstrained, arguments assumed unchanged)")
        return Opaque(self.ctx.fresh_name(fref.qualname))

    def instantiate(self, cref: ClassRef, args, kwargs):
        pol = self.reg.class_policy(cref)
        if pol is not None:
            return pol(self, cref, args, kwargs)
        if self.is_enum_class(cref):
            raise Unsupported("enum construction from a value")
        obj = SymObj(cref.name, cref.module.name)
        # dataclass?  (SequenceData): fields in declaration order
        cls = cref.module.classes[cref.name]
        if any((isinstance(d, ast.Call) and getattr(d.func, "id", "") == "dataclass") or
               (isinstance(d, ast.Name) and d.id == "dataclass") for d in cls.decorator_list):
            names = [n.target.id for n in cls.body if isinstance(n, ast.AnnAssign)
                     and isinstance(n.target, ast.Name)]
            vals = dict(zip(names, args))
            vals.update(kwargs)
            if set(vals) != set(names):
                raise RaiseSig("TypeError", f"{cref.name}() arguments", self.ctx.cur_line)
            obj.fields.update(vals)
            return obj
        init = self.find_class_member(obj, "__init__")
        if init is not None:
            mod, c, node = init
            self.call_function(FuncRef(mod, f"{c.name}.__init__", node), [obj] + list(args), kwargs)
        else:
            ext = self.reg.external_base_init(self, obj, cref, args, kwargs)
        return obj

    def bind_params(self, fnode, args, kwargs, fr: Frame, defaults_frame: Frame):
        a = fnode.args
        params = list(a.posonlyargs) + list(a.args)
        args = list(args)
        kwargs = dict(kwargs)
        ndef = len(a.defaults)
        for k, p in enumerate(params):
            if k < len(args):
                fr.locals[p.arg] = args[k]
            elif p.arg in kwargs:
                fr.locals[p.arg] = kwargs.pop(p.arg)
            else:
                dk = k - (len(params) - ndef)
                if dk < 0:
                    raise RaiseSig("TypeError", f"missing argument {p.arg}", self.ctx.cur_line)
                fr.locals[p.arg] = self.eval(a.defaults[dk], defaults_frame)
        extra = args[len(params):]
        if a.vararg is not None:
            fr.locals[a.vararg.arg] = tuple(extra)
        elif extra:
            raise RaiseSig("TypeError", "too many positional arguments", self.ctx.cur_line)
        for p, d in zip(a.kwonlyargs, a.kw_defaults):
            if p.arg in kwargs:
                fr.locals[p.arg] = kwargs.pop(p.arg)
            elif d is not None:
                fr.locals[p.arg] = self.eval(d, defaults_frame)
            else:
                raise RaiseSig("TypeError", f"missing keyword argument {p.arg}", self.ctx.cur_line)
        if a.kwarg is not None:
            fr.locals[a.kwarg.arg] = kwargs
        elif kwargs:
            raise RaiseSig("TypeError", f"unexpected keyword arguments {sorted(kwargs)}",
                           self.ctx.cur_line)

    def new_frame(self, fref: FuncRef) -> Frame:
        fr = Frame(fref.module, fref.key, closure=fref.closure)
        if "." in fref.qualname and fref.closure is None:
            fr.cls = fref.qualname.split(".")[0]
        fr.loop_specs = self.reg.loop_specs(fref)
        fr.func_node = fref.node
        return fr

    def exec_function(self, fref: FuncRef, args, kwargs, frame: Frame | None = None):
        node = fref.node
        fr = frame or self.new_frame(fref)
        if frame is None:
            self.bind_params(node, args, kwargs, fr, Frame(fref.module, fref.key, closure=fref.closure))
        if fr.cls is not None and args:
            fr.self_obj = args[0]
        if isinstance(node, ast.Lambda):
            return self.eval(node.body, fr)
        is_gen = any(isinstance(n, (ast.Yield, ast.YieldFrom)) for n in ast.walk(node))
        if is_gen and fr.yields is None:
            fr.yields = []
        saved_line = self.ctx.cur_line
        try:
            self.exec_block(node.body, fr)
            ret = None
        except ReturnSig as r:
            ret = r.value
        finally:
            pass
        self.ctx.cur_line = saved_line
        if is_gen:
            return fr.yields
        return ret

    # ======================================================================
    # statements
    # ======================================================================
    def exec_block(self, stmts, fr):
        for s in stmts:
            self.ctx.cur_line = getattr(s, "lineno", self.ctx.cur_line)
            m = getattr(self, "s_" + type(s).__name__, None)
            if m is None:
                raise Unsupported(f"statement {type(s).__name__} at line {s.lineno} in {fr.label}")
            m(s, fr)

    def s_Expr(self, node, fr):
        if isinstance(node.value, ast.Constant):
            return
        if isinstance(node.value, (ast.Yield,)):
            v = self.eval(node.value.value, fr) if node.value.value is not None else None
            self.do_yield(v, fr)
            return
        self.eval(node.value, fr)

    def do_yield(self, v, fr):
        f = fr
        while f is not None and f.yields is None:
            f = f.closure
        if f is None:
            raise Unsupported("yield outside a generator")
        if hasattr(f.yields, "append_sym"):
            f.yields.append_sym(self, v, fr)       # ghost yield log (symbolic number of yields)
        else:
            f.yields.append(v)
            self.ctx.log_write(("yields", id(f)), "*")

    def s_Pass(self, node, fr):
        pass

    def s_Assign(self, node, fr):
        v = self.eval(node.value, fr)
        for t in node.targets:
            self.assign(t, v, fr)

    def s_AnnAssign(self, node, fr):
        if node.value is not None:
            self.assign(node.target, self.eval(node.value, fr), fr)

    def s_AugAssign(self, node, fr):
        t = node.target
        if isinstance(t, ast.Name):
            cur = self.lookup_name(t.id, fr)
            if isinstance(cur, T.LamTensor):
                # in-place tensor update: rebinding the element function keeps aliases in sync
                new = self.binop(type(node.op), cur.copy(), self.eval(node.value, fr), node)
                cur.fn = new.fn
                cur.version += 1
                self.ctx.log_write(("tensor", cur.tid), "*")
                return
            fr.locals[t.id] = self.binop(type(node.op), cur, self.eval(node.value, fr), node)
            return
        if isinstance(t, ast.Attribute):
            obj = self.eval(t.value, fr)
            cur = self.getattr(obj, t.attr, fr)
            val = self.eval(node.value, fr)
            if isinstance(cur, T.LamTensor):
                new = self.binop(type(node.op), cur.copy(), val, node)
                cur.fn = new.fn
                cur.version += 1
                return
            self.setattr(obj, t.attr, self.binop(type(node.op), cur, val, node))
            return
        if isinstance(t, ast.Subscript):
            obj = self.eval(t.value, fr)
            idx = self.eval_index(t.slice, fr)
            cur = self.getitem(obj, idx)
            val = self.eval(node.value, fr)
            self.setitem(obj, idx, self.binop(type(node.op), cur, val, node))
            return
        raise Unsupported("augmented assignment target")

    def s_Return(self, node, fr):
        raise ReturnSig(None if node.value is None else self.eval(node.value, fr))

    def s_Break(self, node, fr):
        raise BreakSig()

    def s_Continue(self, node, fr):
        raise ContinueSig()

    def s_Assert(self, node, fr):
        c = self.truth(self.eval(node.test, fr))
        if not self.ctx.branch(c):
            raise RaiseSig("AssertionError", "", node.lineno)

    def s_Raise(self, node, fr):
        e = node.exc
        if e is None:
            raise Unsupported("bare raise")
        if isinstance(e, ast.Call):
            e = e.func
        name = e.id if isinstance(e, ast.Name) else (e.attr if isinstance(e, ast.Attribute) else "Exception")
        raise RaiseSig(name, "", node.lineno)

    def s_If(self, node, fr):
        c = self.truth(self.eval(node.test, fr))
        if self.ctx.branch(c):
            self.exec_block(node.body, fr)
        else:
            self.exec_block(node.orelse, fr)

    def s_Import(self, node, fr):
        for a in node.names:
            fr.locals[a.asname or a.name.split(".")[0]] = ModRef(a.name)

    def s_ImportFrom(self, node, fr):
        for a in node.names:
            fr.locals[a.asname or a.name] = ModRef(f"{node.module}.{a.name}")

    def s_FunctionDef(self, node, fr):
        fr.locals[node.name] = FuncRef(fr.module, f"{fr.label.split(':')[-1]}.<locals>.{node.name}",
                                       node, closure=fr)

    def s_Delete(self, node, fr):
        for t in node.targets:
            if isinstance(t, ast.Name):
                fr.locals.pop(t.id, None)
            else:
                raise Unsupported("del of a non-name")

    def s_Global(self, node, fr):
        raise Unsupported("global statement")

    def s_With(self, node, fr):
        entered = []
        for item in node.items:
            v = self.eval(item.context_expr, fr)
            v2 = self.reg.with_enter(self, v)
            entered.append(v)
            if item.optional_vars is not None:
                self.assign(item.optional_vars, v2, fr)
        try:
            self.exec_block(node.body, fr)
        finally:
            for v in reversed(entered):
                self.reg.with_exit(self, v)

    def s_Try(self, node, fr):
        try:
            try:
                self.exec_block(node.body, fr)
            except RaiseSig as r:
                for h in node.handlers:
                    names = []
                    if h.type is None:
                        names = None
                    elif isinstance(h.type, ast.Tuple):
                        names = [getattr(e, "id", getattr(e, "attr", "")) for e in h.type.elts]
                    else:
                        names = [getattr(h.type, "id", getattr(h.type, "attr", ""))]
                    if names is None or r.exc in names or "Exception" in names or "BaseException" in names:
                        if h.name:
                            fr.locals[h.name] = Opaque(f"exc:{r.exc}")
                        self.exec_block(h.body, fr)
                        break
                else:
                    raise
            else:
                self.exec_block(node.orelse, fr)
        finally:
            if node.finalbody:
                self.exec_block(node.finalbody, fr)

    # -- loops -------------------------------------------------------------
    def loop_ordinal(self, node, fr):
        fn = getattr(fr, "func_node", None)
        f = fr
        while fn is None and f is not None:
            f = f.closure
            fn = getattr(f, "func_node", None) if f else None
        if fn is None:
            return None
        cache = getattr(fn, "_pyvc_loops", None)
        if cache is None:
            loops = [n for n in ast.walk(fn) if isinstance(n, (ast.For, ast.While))]
            loops.sort(key=lambda n: (n.lineno, n.col_offset))
            cache = {id(n): k for k, n in enumerate(loops)}
            fn._pyvc_loops = cache
        return cache.get(id(node))

    def loop_spec(self, node, fr):
        k = self.loop_ordinal(node, fr)
        f = fr
        while f is not None:
            if k in f.loop_specs:
                return k, f.loop_specs[k]
            if getattr(f, "func_node", None) is not None:
                break
            f = f.closure
        return k, None

    def s_For(self, node, fr):
        k, spec = self.loop_spec(node, fr)
        it = self.eval(node.iter, fr)
        if spec is None:
            items = self.iterate(it)
            broke = False
            for item in items:
                self.assign(node.target, item, fr)
                try:
                    self.exec_block(node.body, fr)
                except BreakSig:
                    broke = True
                    break
                except ContinueSig:
                    continue
            if not broke:
                self.exec_block(node.orelse, fr)
            return
        self.reg.invariant_loop(self, node, fr, k, spec, it)

    def s_While(self, node, fr):
        k, spec = self.loop_spec(node, fr)
        if spec is None:
            # no invariant: only loops whose guard is decided concretely are unrolled
            n = 0
            while True:
                c = self.truth(self.eval(node.test, fr))
                if not isinstance(c, bool):
                    raise Unsupported(f"while loop at line {node.lineno} in {fr.label} has a symbolic "
                                      "guard and no invariant")
                if not c:
                    break
                n += 1
                if n > 10000:
                    raise Unsupported("concrete while loop does not terminate")
                try:
                    self.exec_block(node.body, fr)
                except BreakSig:
                    return
                except ContinueSig:
                    continue
            self.exec_block(node.orelse, fr)
            return
        self.reg.invariant_loop(self, node, fr, k, spec, None)


class FrozenForall:
    """A universally quantified hypothesis, closed at assumption time."""

    def __init__(self, vars_, guard, body):
        self.vars, self.guard, self.body = vars_, guard, body
        self.done: set = set()
        self.triggers = self._triggers()

    def _triggers(self):
        """(uf name, {var index: (argument position, offset)}) for every application of an
        uninterpreted function in the body/guard whose integer arguments bind ALL variables"""
        out = []
        seen = set()
        names = set()

        def walk(e):
            if e.get_id() in seen:
                return
            seen.add(e.get_id())
            if z3.is_app(e):
                if e.num_args() > 0 and e.decl().kind() == z3.Z3_OP_UNINTERPRETED:
                    binding = {}
                    for pos, a in enumerate(e.children()):
                        if not z3.is_int(a):
                            continue
                        for vi, v in enumerate(self.vars):
                            if vi in binding:
                                continue
                            d = z3.simplify(a - v)
                            if z3.is_int_value(d):
                                binding[vi] = (pos, d.as_long())
                    if len(binding) == len(self.vars):
                        key = (e.decl().name(), tuple(sorted(binding.items())))
                        if key not in names:
                            names.add(key)
                            out.append((e.decl().name(), binding))
                for c in e.children():
                    walk(c)
        walk(self.body)
        walk(self.guard)
        return out


class FStr(str):
    """value of an f-string: the text with "{}" per field (a plain str for every consumer), plus the
    values of the fields that are plain names (`.names`, `.values`) for models of format()"""
    names: list = []
    values: list = []


class ExternalMethod:
    """Method inherited from a class outside the repo (e.g. pulser's EmulationConfig.__init__)."""

    def __init__(self, obj, base: str, name: str):
        self.obj, self.base, self.name = obj, base, name


class SuperV:
    def __init__(self, obj, cls, module):
        self.obj, self.cls, self.module = obj, cls, module


def fr_self(fr):
    f = fr
    while f is not None:
        if f.self_obj is not None:
            return f.self_obj
        f = f.closure
    return None


def fr_cls(fr):
    f = fr
    while f is not None:
        if f.cls is not None:
            return f.cls
        f = f.closure
    return None


def fr_module(fr):
    f = fr
    while f is not None:
        if f.cls is not None:
            return f.module
        f = f.closure
    return fr.module


BUILTIN_NAMES = {
    "abs", "min", "max", "len", "range", "sum", "float", "int", "bool", "str", "isinstance", "tuple",
    "list", "set", "dict", "sorted", "enumerate", "zip", "all", "any", "type", "open", "print",
    "reversed", "map", "filter", "repr", "round", "divmod", "complex", "iter", "next", "hasattr",
    "getattr", "setattr", "id", "super", "object", "frozenset", "callable", "pow", "format",
    "ValueError", "TypeError", "NotImplementedError", "RuntimeError", "AssertionError", "Exception",
    "RecursionError", "KeyError", "IndexError", "ZeroDivisionError", "AttributeError",
    "True", "False", "None", "NotImplemented", "Ellipsis",
}
