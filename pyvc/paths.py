"""Path contexts, obligations and path exploration by re-execution."""
from __future__ import annotations

import time

import z3

from .budget import set_budget

from .values import Unsupported, to_z3

FEAS_TIMEOUT_MS = 5000


class PathEnd(Exception):
    """The current path ends here (infeasible, or an arbitrary loop iteration finished)."""


class Obligation:
    __slots__ = ("name", "kind", "status", "backend", "time_s", "model", "lineno",
                 "func", "path", "note", "known")

    def __init__(self, name, kind, status, backend="z3", time_s=0.0, model=None,
                 lineno=None, func=None, path=None, note="", known=None):
        self.name, self.kind, self.status = name, kind, status
        self.backend, self.time_s, self.model = backend, time_s, model
        self.lineno, self.func, self.path, self.note = lineno, func, path, note
        self.known = known           # id of the known finding that covers a failure

    def to_json(self):
        return {k: getattr(self, k) for k in self.__slots__}


def model_to_dict(m: z3.ModelRef, limit: int = 60) -> dict:
    out = {}
    for d in m.decls():
        if len(out) >= limit:
            break
        try:
            v = m[d]
            out[d.name()] = str(v)
        except Exception:       # pragma: no cover
            pass
    return out


class PathCtx:
    """One symbolic execution path: path condition (in a z3 solver), the branch decisions
    to replay, obligations proved along the way."""

    def __init__(self, session, prefix, func_label):
        self.session = session
        self.prefix = list(prefix)
        self.taken: list[bool] = []
        self.alternatives: list[list[bool]] = []
        self.solver = z3.Solver()
        set_budget(self.solver, session.timeout_ms)
        self.obligations: list[Obligation] = []
        self.func_label = func_label
        self.speculative = 0
        self.maybe_infeasible = False
        self.heap_writes: list[set] = []      # stack of write logs (loop frame checks)
        self.fresh_n = 0
        self.cur_line = None
        self.ghost: dict = {}
        self.trace: list = []
        self.quantified: list = []      # assumed universal hypotheses as genuine z3 quantifiers

    # -- fresh symbols -------------------------------------------------------
    def fresh_name(self, base: str) -> str:
        self.fresh_n += 1
        return f"{base}!{self.fresh_n}"

    def fresh(self, base: str, sort: str):
        n = self.fresh_name(base)
        if sort == "real":
            return z3.Real(n)
        if sort == "int":
            return z3.Int(n)
        if sort == "bool":
            return z3.Bool(n)
        if sort == "str":
            return z3.String(n)
        raise Unsupported(f"fresh symbol of sort {sort}")

    # -- path condition ------------------------------------------------------
    def assume(self, f) -> None:
        if isinstance(f, bool):
            if not f:
                raise PathEnd()
            return
        self.solver.add(f)

    def _check(self, *extra):
        self.solver.push()
        try:
            for e in extra:
                self.solver.add(e)
            set_budget(self.solver, FEAS_TIMEOUT_MS)
            r = self.solver.check()
        finally:
            self.solver.pop()
            set_budget(self.solver, self.session.timeout_ms)
        return r

    def feasible(self, f) -> bool:
        r = self._check(f)
        if r == z3.unknown:
            self.maybe_infeasible = True
            return True
        return r == z3.sat

    def entails(self, f) -> bool:
        """pc |= f, decided quickly (used for benign side questions only)."""
        if isinstance(f, bool):
            return f
        return self._check(z3.Not(f)) == z3.unsat

    def branch(self, cond, free=False) -> bool:
        """Decide a symbolic condition: follow the replay prefix, or fork.
        free=True: cond is a fresh unconstrained Boolean (both sides feasible by construction)."""
        if isinstance(cond, bool):
            return cond
        cond = z3.simplify(cond)
        if z3.is_true(cond):
            return True
        if z3.is_false(cond):
            return False
        if self.speculative:
            raise NeedFork()
        i = len(self.taken)
        if i < len(self.prefix):
            d = self.prefix[i]
        else:
            t_ok = True if free else self.feasible(cond)
            f_ok = True if free else self.feasible(z3.Not(cond))
            if t_ok and f_ok:
                d = True
                self.alternatives.append(self.taken + [False])
            elif t_ok:
                d = True
            elif f_ok:
                d = False
            else:
                raise PathEnd()
        self.taken.append(d)
        self.solver.add(cond if d else z3.Not(cond))
        return d

    # -- obligations ---------------------------------------------------------
    def prove(self, name: str, f, kind: str = "post", excuses=None) -> bool:
        """Record obligation `name`: pc |= f.  Afterwards f is assumed (so one defect
        gives one failed obligation, not a cascade)."""
        t0 = time.time()
        full = f"{self.func_label}/{name}"
        if isinstance(f, bool):
            fz = z3.BoolVal(f)
        else:
            fz = f
        status, model, backend, known = self.session.discharge(self, full, fz, excuses)
        ob = Obligation(full, kind, status, backend, time.time() - t0, model,
                        self.cur_line, self.func_label, list(self.taken), known=known)
        if status == "failed" and self.maybe_infeasible:
            ob.status = "unknown"
            ob.note = "counter-model on a path whose feasibility the solver could not decide"
        self.obligations.append(ob)
        if status != "discharged":
            try:
                self.assume(fz)
            except PathEnd:
                raise
            if self._check() == z3.unsat:
                raise PathEnd()
        else:
            self.assume(fz)
        return status == "discharged"

    def log_write(self, oid, field) -> None:
        for s in self.heap_writes:
            s.add((oid, field))


class NeedFork(Exception):
    """Raised in speculative (pure) evaluation when a fork or side effect is needed."""


def explore(session, func_label, run_path, max_paths=4000):
    """Enumerate all feasible paths of `run_path(ctx)` by re-execution."""
    work = [[]]
    obligations: list[Obligation] = []
    npaths = 0
    while work:
        prefix = work.pop()
        npaths += 1
        if npaths > max_paths:
            raise Unsupported(f"{func_label}: more than {max_paths} paths")
        ctx = PathCtx(session, prefix, func_label)
        try:
            run_path(ctx)
        except PathEnd:
            pass
        work.extend(ctx.alternatives)
        obligations.extend(ctx.obligations)
    return obligations, npaths
