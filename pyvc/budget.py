"""Solver budgets that do not depend on the machine's load.

z3's `timeout` is wall-clock time: with all cores busy a query that needs 2 s of CPU does not finish in
10 s, the obligation comes back `unknown` and the verdict of a check would depend on what else is running.
z3's `rlimit` counts solver work instead (about 0.5-1 M units per second on this machine, independent of
load), so the budget of every query is an rlimit; the wall-clock timeout stays as a safety net only,
stretched by the current load.  (cvc5, a subprocess of last resort, has a wall-clock limit stretched the
same way.)"""
import os

RATE = int(os.environ.get("PYVC_RLIMIT_PER_MS", "2000"))      # resource units granted per millisecond of nominal budget
WALL_SLACK = 4.0


def load_factor():
    try:
        per_core = os.getloadavg()[0] / (os.cpu_count() or 1)
    except OSError:
        per_core = 1.0
    return min(40.0, max(1.0, per_core))


def wall_ms(ms):
    return int(ms * WALL_SLACK * load_factor())


def set_budget(solver, ms):
    solver.set("rlimit", int(ms * RATE))
    solver.set("timeout", wall_ms(ms))
