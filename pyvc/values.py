"""Value domain of the symbolic interpreter."""
from __future__ import annotations

import itertools
from fractions import Fraction

import z3

_ids = itertools.count(1)


class Unsupported(Exception):
    """A construct outside the verified subset -> the run is *undecided* (exit 2)."""


def is_z3(v) -> bool:
    return isinstance(v, z3.ExprRef)


def is_num(v) -> bool:
    return (isinstance(v, (int, Fraction)) and not isinstance(v, bool)) or (
        is_z3(v) and (z3.is_int(v) or z3.is_real(v)))


def is_boolish(v) -> bool:
    return isinstance(v, bool) or (is_z3(v) and z3.is_bool(v))


def frac_of_float(x: float) -> Fraction:
    """A1: a float literal means its shortest decimal representation, exactly."""
    if x != x or x in (float("inf"), float("-inf")):
        raise Unsupported(f"non-finite float constant {x!r}")
    return Fraction(repr(x))


def to_z3(v):
    """Python number/bool/str -> z3 term (identity on z3 terms)."""
    if is_z3(v):
        return v
    if isinstance(v, bool):
        return z3.BoolVal(v)
    if isinstance(v, int):
        return z3.IntVal(v)
    if isinstance(v, Fraction):
        return z3.RealVal(str(v.numerator)) / z3.RealVal(str(v.denominator)) \
            if v.denominator != 1 else z3.RealVal(str(v.numerator))
    if isinstance(v, float):
        return to_z3(frac_of_float(v))
    if isinstance(v, str):
        return z3.StringVal(v)
    raise Unsupported(f"cannot turn {type(v).__name__} into a solver term")


def to_real(v):
    v = to_z3(v)
    if z3.is_int(v):
        return z3.ToReal(v)
    return v


def unify(a, b):
    """Coerce two numeric z3 terms to a common sort."""
    a, b = to_z3(a), to_z3(b)
    if z3.is_real(a) and z3.is_int(b):
        b = z3.ToReal(b)
    elif z3.is_int(a) and z3.is_real(b):
        a = z3.ToReal(a)
    return a, b


class Inf:
    """float('inf') / -inf as a concrete extended real (only comparisons are supported)."""

    def __init__(self, sign: int = 1):
        self.sign = sign

    def __repr__(self):
        return "inf" if self.sign > 0 else "-inf"


class OptV:
    """Optional[T] with symbolic None-ness."""

    def __init__(self, is_none, val):
        self.is_none = is_none      # z3 Bool
        self.val = val

    def __repr__(self):
        return f"OptV({self.is_none}, {self.val})"


class Opaque:
    """A value the encoding knows nothing about (result of an unmodelled call, an
    external object).  Attribute reads are memoised so repeated reads agree."""

    def __init__(self, name: str):
        self.name = name
        self.attrs: dict[str, object] = {}
        self.truth = None
        self.oid = next(_ids)

    def __repr__(self):
        return f"Opaque<{self.name}>"


class SymObj:
    """Instance of a repo class (or a declared record): a mutable field map."""

    def __init__(self, cls: str, module: str | None = None, fields: dict | None = None):
        self.cls = cls
        self.module = module
        self.fields: dict[str, object] = dict(fields or {})
        self.oid = next(_ids)
        self.frozen = False

    def __repr__(self):
        return f"<{self.cls}#{self.oid}>"


class EnumV:
    def __init__(self, cls: str, member):
        self.cls = cls
        self.member = member      # python str or z3 String term

    def __repr__(self):
        return f"{self.cls}.{self.member}"


class FuncRef:
    def __init__(self, module, qualname: str, node, closure=None):
        self.module = module
        self.qualname = qualname
        self.node = node
        self.closure = closure       # enclosing Frame for nested defs / lambdas

    @property
    def key(self) -> str:
        return f"{self.module.name}:{self.qualname}"

    def __repr__(self):
        return f"FuncRef<{self.key}>"


class ClassRef:
    def __init__(self, module, name: str):
        self.module = module
        self.name = name

    @property
    def key(self) -> str:
        return f"{self.module.name}:{self.name}"

    def __repr__(self):
        return f"ClassRef<{self.key}>"


class BoundMethod:
    def __init__(self, obj, func: FuncRef):
        self.obj = obj
        self.func = func


class ModRef:
    """Reference into an external module (torch, math, os, ...) by dotted name."""

    def __init__(self, dotted: str):
        self.dotted = dotted

    def __repr__(self):
        return f"ModRef<{self.dotted}>"


class BuiltinMethod:
    """Method of a builtin container / tensor, dispatched by the interpreter."""

    def __init__(self, obj, name: str):
        self.obj = obj
        self.name = name


class ForallV:
    """Result of `forall(lambda i: body, lo, hi)` in a contract expression."""

    def __init__(self, fn, lo, hi, label="i"):
        self.fn, self.lo, self.hi, self.label = fn, lo, hi, label


class SymSeq:
    """Sequence of symbolic length: len is a z3 Int, elements come from `fn(index)`."""

    def __init__(self, length, fn, kind="list"):
        self.length = length
        self.fn = fn
        self.kind = kind
        self.oid = next(_ids)


class CplxV:
    """Complex number as a pair of real-valued terms (exact)."""

    def __init__(self, re, im):
        self.re, self.im = re, im

    @staticmethod
    def of(v):
        if isinstance(v, CplxV):
            return v
        if isinstance(v, complex):
            return CplxV(frac_of_float(v.real), frac_of_float(v.imag))
        return CplxV(v, 0)

    def __repr__(self):
        return f"({self.re} + {self.im}j)"
