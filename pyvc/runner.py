"""Property runner: verifies the functions under contract for one property, aggregates the
obligations, applies the known-findings file, replays counter-models natively, writes
evidence, and maps everything to the exit codes of DESIGN section 2.4:

  0 held (or only known findings)   1 violation   2 undecided   3 checker crash
"""
from __future__ import annotations

import fnmatch
import hashlib
import importlib
import json
import multiprocessing as mp
import os
import re
import subprocess
import sys
import time
import traceback

VERIF = os.path.dirname(os.path.dirname(os.path.abspath(__file__)))
LOCK = os.path.join(VERIF, "obligations.lock.json")
KNOWN = os.path.join(VERIF, "known_findings.json")
NATIVE_PY = "/venv/bin/python"

TIERS = {"quick": dict(timeout_ms=10000, recheck=False),
         "thorough": dict(timeout_ms=120000, recheck=True)}


def base_name(n: str) -> str:
    return n


def load_known():
    if not os.path.exists(KNOWN):
        return []
    with open(KNOWN) as f:
        return json.load(f).get("findings", [])


def _make_registry(prop_id, repo_root):
    from .registry import Registry
    from .repo import Repo
    mod = importlib.import_module(f"props.{prop_id}")
    reg = Registry(Repo(repo_root))
    plan = mod.build(reg)
    for k in load_known():
        if k.get("status") == "open" and k["property"] == prop_id and k.get("region"):
            reg.known.setdefault(k["obligation"], []).append((k["id"], k["region"]))
    return mod, reg, plan


def _worker(job):
    prop_id, kind, key, tier, repo_root = job
    try:
        from .session import Session
        from .verify import prove_lemma, verify_function
        mod, reg, plan = _make_registry(prop_id, repo_root)
        t = TIERS[tier]
        ses = Session(t["timeout_ms"], use_cvc5=True, recheck_cvc5=t["recheck"])
        if kind == "fn":
            c = reg.all[key]
            rep = verify_function(reg, ses, c)
            cinfo = _contract_info(reg, c)
        else:
            cinfo = None
            fn = dict(plan.get("lemmas", []))[key]
            rep = prove_lemma(reg, ses, key, fn, prop_id)
        out = rep.to_json()
        out["contract"] = cinfo
        out["assumptions"] = sorted(ses.assumptions)
        out["stats"] = ses.stats
        return out
    except Exception:
        return {"target": key, "label": key, "paths": 0, "error": None,
                "crash": traceback.format_exc(), "obligations": [], "assumptions": [],
                "stats": {}, "span": None, "file": None, "sha256": None, "wall_s": 0,
                "outcomes": {}}


def _contract_info(reg, c):
    params = {k: (v if isinstance(v, str) else "<factory>") for k, v in c.params.items()}
    info = {"target": c.target, "params": params, "requires": c.requires, "ensures": c.ensures,
            "raises": c.raises, "modifies": c.modifies, "self_fields": {}, "class_invariants": {}}
    st = params.get("self", "")
    if isinstance(st, str) and st.startswith("obj:"):
        spec = reg.classes.get(st[4:], {})
        info["self_fields"] = {k: (v if isinstance(v, str) else "<factory>")
                               for k, v in spec.get("fields", {}).items()}
    info["class_invariants"] = {k: v.get("invariant", []) for k, v in reg.classes.items()
                                if v.get("invariant")}
    return info


def run_property(prop_id: str, tier: str, seed: int, repo_root: str = "/repo",
                 relock: bool = False, jobs: int | None = None) -> int:
    t0 = time.time()
    sys.path.insert(0, VERIF)
    mod, reg, plan = _make_registry(prop_id, repo_root)
    if hasattr(mod, "run_custom"):
        return mod.run_custom(tier, seed, repo_root, relock)
    work = [(prop_id, "fn", k, tier, repo_root) for k in plan["targets"]]
    work += [(prop_id, "lemma", k, tier, repo_root) for k, _ in plan.get("lemmas", [])]
    side = _start_native_side_check(prop_id, mod, tier, seed, repo_root)
    n = jobs or min(16, max(1, len(work)))
    from .forkmap import fork_map
    reports = fork_map(_worker, work, n)
    extra = []
    if hasattr(mod, "extra_checks"):
        extra = mod.extra_checks(tier, seed, repo_root) or []
        reports.extend(extra)
    if side is not None:
        reports.extend(_finish_native_side_check(prop_id, side, repo_root))
    controls = None
    if tier == "thorough" and not os.environ.get("PYVC_NO_EVIDENCE") and getattr(mod, "CONTROLS", None):
        controls = run_controls(prop_id, mod.CONTROLS, repo_root)
        plan["controls"] = controls
    rc = finish(prop_id, tier, seed, mod, plan, reports, t0, relock, repo_root)
    if controls and rc == 0 and any(c["verdict"] == "passed" for c in controls):
        missed = [c["name"] for c in controls if c["verdict"] == "passed"]
        print(f"CHECKER-CRASH: negative control(s) not detected: {missed}", file=sys.stderr)
        return 3
    return rc


def run_engine_a(prop_id: str, tier: str, seed: int, repo_root: str = "/repo", relock: bool = False,
                 jobs: int | None = None, controls_attr: str = "CONTROLS_A"):
    """For a `run_custom` property module that ALSO has Engine-A targets: `mod.build(reg)` returns their
    plan; they are verified exactly like in run_property (same lock, native replay `mod.REPLAY`, exit
    codes), but the evidence is returned instead of being written, so that the module can merge it into
    its own evidence file (e.g. under coverage["engine_a"]).  Returns (exit code, evidence dict)."""
    t0 = time.time()
    sys.path.insert(0, VERIF)
    mod, reg, plan = _make_registry(prop_id, repo_root)
    work = [(prop_id, "fn", k, tier, repo_root) for k in plan["targets"]]
    work += [(prop_id, "lemma", k, tier, repo_root) for k, _ in plan.get("lemmas", [])]
    side = _start_native_side_check(prop_id, mod, tier, seed, repo_root)
    n = jobs or min(16, max(1, len(work)))
    from .forkmap import fork_map
    reports = fork_map(_worker, work, n)
    if side is not None:
        reports.extend(_finish_native_side_check(prop_id, side, repo_root))
    controls = None
    if tier == "thorough" and not os.environ.get("PYVC_NO_EVIDENCE") and getattr(mod, controls_attr, None):
        saved = os.environ.get("PYVC_ENGINE_A_ONLY")
        os.environ["PYVC_ENGINE_A_ONLY"] = "1"        # the controls re-run only the Engine-A part
        try:
            controls = run_controls(prop_id, getattr(mod, controls_attr), repo_root)
        finally:
            if saved is None:
                os.environ.pop("PYVC_ENGINE_A_ONLY", None)
            else:
                os.environ["PYVC_ENGINE_A_ONLY"] = saved
        plan["controls"] = controls
    plan["_no_evidence_file"] = True
    rc = finish(prop_id, tier, seed, mod, plan, reports, t0, relock, repo_root)
    if controls and rc == 0 and any(c["verdict"] == "passed" for c in controls):
        missed = [c["name"] for c in controls if c["verdict"] == "passed"]
        print(f"CHECKER-CRASH: negative control(s) not detected: {missed}", file=sys.stderr)
        rc = 3
    return rc, plan.get("_evidence")


def _start_native_side_check(prop_id, mod, tier, seed, repo_root):
    """BOUNDED complement to the proof: the property's native falsifier (the program that replays
    counterexamples: sampled inputs run through the real code in real floating point) is also run when every
    obligation discharges.  The proofs read floats as reals (A1) and cover the functions under contract; a
    change that is an identity over the reals, or that sits beside the contracts, can only be seen this way.
    Enabled per property (`NATIVE_SIDE_CHECK = {"quick": bool, "thorough": bool}`); runs concurrently."""
    want = getattr(mod, "NATIVE_SIDE_CHECK", None)
    prog = getattr(mod, "REPLAY", None)
    if not want or not prog or not want.get(tier) or os.environ.get("PYVC_NO_SIDE_CHECK"):
        return None
    os.makedirs(os.path.join(VERIF, "replays"), exist_ok=True)
    path = os.path.join(VERIF, "replays", f"{prop_id}__native-side-check.{os.getpid()}.json")
    with open(path, "w") as f:
        json.dump({"property": prop_id, "obligation": f"{prop_id}/native-side-check", "kind": "side-check",
                   "counter_model": None, "seed": seed}, f)
    env = dict(os.environ, PYTHONPATH=repo_root, VERIF_SEED=str(seed), PYTHONDONTWRITEBYTECODE="1")
    env.setdefault("OMP_NUM_THREADS", "2")
    t0 = time.time()
    p = subprocess.Popen([NATIVE_PY, os.path.join(VERIF, prog), path, repo_root], cwd=repo_root, env=env,
                         stdout=subprocess.PIPE, stderr=subprocess.PIPE, text=True)
    return {"proc": p, "path": path, "prog": prog, "t0": t0}


def _finish_native_side_check(prop_id, side, repo_root):
    p = side["proc"]
    label = "native-falsifier[side check]"
    func = f"{prop_id}/{label}"
    rep = {"target": side["prog"], "label": label, "paths": 1, "error": None, "crash": None, "obligations": [],
           "assumptions": [], "stats": {}, "span": None, "file": os.path.join(VERIF, side["prog"]), "sha256": None,
           "wall_s": 0, "outcomes": {}, "contract": None}
    try:
        out, err = p.communicate(timeout=900)
        rc = p.returncode
    except subprocess.TimeoutExpired:
        p.kill()
        out, err, rc = "", "timeout after 900 s", None
    tail = "\n".join(l for l in (out or "").splitlines() if "conda" not in l.lower())[-3000:]
    reproduced = rc == 1 and "REPRODUCED" in tail and not tail.strip().splitlines()[-1].startswith("NOT-REPRODUCED")
    clean = rc == 0
    status = "failed" if reproduced else ("discharged" if clean else "skipped")
    nat = {"cmd": f"{NATIVE_PY} {side['prog']} <side-check record> {repo_root}", "exit": rc, "stdout": tail,
           "stderr": (err or "")[-800:], "reproduced": reproduced}
    if status != "skipped":
        rep["obligations"].append({
            "name": f"{func}/no-failing-input-among-the-sampled-ones", "kind": "bounded-native", "status": status,
            "backend": "native(real torch, IEEE floats)", "time_s": round(time.time() - side["t0"], 2),
            "model": {"falsifier_output": tail[-1200:]} if reproduced else None, "lineno": None, "func": func, "path": [],
            "note": "bounded: the sampled inputs of the property's native falsifier", "known": None, "nolock": True,
            "native_replay": nat})
        # inputs of OPEN known findings that the falsifier re-runs and reports as still failing
        for fid in sorted(set(re.findall(r"KNOWN-FINDING-(F[0-9]+[a-z]?)-INPUT-FAILS", tail))):
            rep["obligations"].append({
                "name": f"{func}/known-finding-input-{fid}", "kind": "bounded-native", "status": "known",
                "backend": "native(real torch, IEEE floats)", "time_s": 0.0, "model": None, "lineno": None, "func": func,
                "path": [], "note": "the recorded input of an open known finding still fails", "known": [fid],
                "nolock": True})
    else:
        # did not finish / harness error: recorded, never a verdict
        print(f"NOTE: native side check of {prop_id} did not complete (exit {rc}): {(err or tail)[-200:]!r}")
        rep["error"] = None
    rep["wall_s"] = round(time.time() - side["t0"], 2)
    try:
        if not reproduced:
            os.remove(side["path"])
    except OSError:
        pass
    return [rep]


def run_controls(prop_id, controls, repo_root):
    """Negative controls (thorough tier): each is a small source mutation that breaks the property;
    it is applied to a scratch copy outside /repo and /verif and the quick check must NOT pass on it
    (exit 1 = detected, exit 2 = undecided is tolerated and reported, exit 0 = the check is blind)."""
    import shutil
    import tempfile
    out = []
    for (name, rel, old, new) in controls:
        tmp = tempfile.mkdtemp(prefix="pyvc_ctl_")
        try:
            for d in ("emu_base", "emu_mps", "emu_sv"):
                shutil.copytree(os.path.join(repo_root, d), os.path.join(tmp, d),
                                ignore=shutil.ignore_patterns("__pycache__"))
            for f in ("pyproject.toml",):
                if os.path.exists(os.path.join(repo_root, f)):
                    shutil.copy(os.path.join(repo_root, f), tmp)
            path = os.path.join(tmp, rel)
            src = open(path).read()
            from pyvc.textmut import mutate
            mutated, why = mutate(src, old, new)
            if mutated is None:
                out.append({"name": name, "verdict": "not-applicable", "detail": why})
                continue
            open(path, "w").write(mutated)
            p = subprocess.run([sys.executable, "-m", "pyvc.runner", prop_id, "--tier", "quick", "--repo", tmp],
                               capture_output=True, text=True, cwd=VERIF,
                               env=dict(os.environ, PYVC_NO_EVIDENCE="1", PYTHONPATH=VERIF))
            verdict = {0: "passed", 1: "detected", 2: "undecided"}.get(p.returncode, f"exit {p.returncode}")
            failed = [l.strip() for l in p.stdout.splitlines() if "failed obligation" in l][:3]
            out.append({"name": name, "file": rel, "verdict": verdict, "failed_obligations": failed})
        finally:
            shutil.rmtree(tmp, ignore_errors=True)
    return out


def finish(prop_id, tier, seed, mod, plan, reports, t0, relock, repo_root):
    crashes = [r for r in reports if r.get("crash")]
    errors = [r for r in reports if r.get("error")]
    obs = [o for r in reports for o in r["obligations"]]
    groups: dict[str, list] = {}
    for o in obs:
        groups.setdefault(o["name"], []).append(o)

    def gstatus(items):
        st = {i["status"] for i in items}
        for s in ("failed", "unknown", "known"):
            if s in st:
                return s
        return "discharged"
    status = {n: gstatus(it) for n, it in groups.items()}
    lock_all = {}
    if os.path.exists(LOCK):
        with open(LOCK) as f:
            lock_all = json.load(f)
    locked = set(lock_all.get(prop_id, []))
    if relock:
        # an obligation may opt out of the lock (`nolock`: generated in the thorough tier only, so its absence
        # from a quick run is not a disappearance)
        lock_all[prop_id] = sorted(n for n, s in status.items() if s in ("discharged", "known")
                                   and not any(i.get("nolock") for i in groups[n]))
        with open(LOCK, "w") as f:
            json.dump(lock_all, f, indent=1, sort_keys=True)
        locked = set(lock_all[prop_id])
    missing = sorted(locked - set(status))

    known_defs = {k["id"]: k for k in load_known()}
    known_hit = {}
    for n, it in groups.items():
        if status[n] == "known":
            for i in it:
                for fid in (i.get("known") or []):
                    known_hit[fid] = n
    violations = []
    os.makedirs(os.path.join(VERIF, "replays"), exist_ok=True)
    for n, it in sorted(groups.items()):
        if status[n] != "failed":
            continue
        bad = [i for i in it if i["status"] == "failed"][0]
        rep = next(r for r in reports if any(o is bad for o in r["obligations"]))
        path = os.path.join(VERIF, "replays", prop_id + "__" + re.sub(r"[^A-Za-z0-9_.#-]+", "_", n) + ".json")
        rec = {"property": prop_id, "obligation": n, "kind": bad["kind"], "backend": bad["backend"],
               "function": rep.get("target"), "file": rep.get("file"), "span": rep.get("span"),
               "line": bad.get("lineno"), "path_decisions": bad.get("path"),
               "counter_model": bad.get("model"), "was_in_lock": n in locked,
               "solver_note": bad.get("note", ""), "native": None,
               "contract": rep.get("contract")}
        reproduced = False
        replay_prog = getattr(mod, "REPLAY", None)
        with open(path, "w") as f:
            json.dump(rec, f, indent=1, default=str)
        pre = bad.get("native_replay")
        if isinstance(pre, dict):
            # the producer of the obligation (extra_checks) already replayed it natively, many cases in one
            # process; `path` is still a self-contained input of mod.REPLAY for a replay by hand
            rec["native"] = pre
            reproduced = bool(pre.get("reproduced"))
        elif replay_prog:
            try:
                p = subprocess.run([NATIVE_PY, os.path.join(VERIF, replay_prog), path, repo_root],
                                   capture_output=True, text=True, timeout=900, cwd=repo_root,
                                   env=dict(os.environ, PYTHONPATH=repo_root))
                rec["native"] = {"cmd": f"{NATIVE_PY} {replay_prog}", "exit": p.returncode,
                                 "stdout": p.stdout[-4000:], "stderr": p.stderr[-2000:]}
                reproduced = p.returncode == 1 and "REPRODUCED" in p.stdout
            except Exception as e:       # pragma: no cover
                rec["native"] = {"error": repr(e)}
        rec["reproduced_natively"] = reproduced
        with open(path, "w") as f:
            json.dump(rec, f, indent=1, default=str)
        candidate_only = isinstance(bad.get("model"), dict) and "__candidate__" in bad["model"]
        if not reproduced and candidate_only:
            # the solver only had finitely many instances of quantified hypotheses and could not
            # confirm the counter-model against the quantified ones; without a native
            # reproduction this is undecided, not a violation
            errors.append({"target": rep.get("target"),
                           "error": f"obligation {n}: candidate counter-model (quantified hypotheses "
                                    "partially instantiated) did not reproduce natively"})
            continue
        if not reproduced and n not in locked and not relock and locked:
            # a new obligation whose counter-model does not replay: undecided, not a violation
            errors.append({"target": rep.get("target"),
                           "error": f"obligation {n} is new (not in the lock) and its counter-model "
                                    "did not reproduce natively"})
            continue
        violations.append((n, path, reproduced))

    undecided = sorted(n for n, s in status.items() if s == "unknown")
    # An obligation that discharged on the unchanged tree (it is in the lock) and is now undecided:
    # the solver gives no counterexample, but the property-level native falsifier may.  A native
    # reproduction is a real failing input, so it is reported as a violation (named after the
    # obligation that stopped discharging); without one the obligation stays undecided.
    replay_prog = getattr(mod, "REPLAY", None)
    if replay_prog and not relock:
        for n in list(undecided):
            if n not in locked:
                continue
            it = groups[n]
            bad = [i for i in it if i["status"] == "unknown"][0]
            if isinstance(bad.get("native_replay"), dict):
                continue                 # its producer already searched natively and found no failing input
            rep = next(r for r in reports if any(o is bad for o in r["obligations"]))
            path = os.path.join(VERIF, "replays", prop_id + "__" + re.sub(r"[^A-Za-z0-9_.#-]+", "_", n) + ".json")
            rec = {"property": prop_id, "obligation": n, "kind": bad["kind"], "backend": bad["backend"],
                   "function": rep.get("target"), "file": rep.get("file"), "span": rep.get("span"),
                   "line": bad.get("lineno"), "counter_model": None, "was_in_lock": True,
                   "solver_note": "obligation discharged on the unchanged tree; the solvers now return unknown",
                   "native": None, "contract": rep.get("contract")}
            with open(path, "w") as f:
                json.dump(rec, f, indent=1, default=str)
            try:
                p = subprocess.run([NATIVE_PY, os.path.join(VERIF, replay_prog), path, repo_root],
                                   capture_output=True, text=True, timeout=900, cwd=repo_root,
                                   env=dict(os.environ, PYTHONPATH=repo_root))
                rec["native"] = {"cmd": f"{NATIVE_PY} {replay_prog}", "exit": p.returncode,
                                 "stdout": p.stdout[-4000:], "stderr": p.stderr[-2000:]}
                reproduced = p.returncode == 1 and "REPRODUCED" in p.stdout
            except Exception as e:       # pragma: no cover
                rec["native"] = {"error": repr(e)}
                reproduced = False
            rec["reproduced_natively"] = reproduced
            with open(path, "w") as f:
                json.dump(rec, f, indent=1, default=str)
            if reproduced:
                undecided.remove(n)
                violations.append((n, path, True))
    # Locked obligations that are no longer generated: the changed function left the modelled subset (the
    # verifier is undecided about it).  Same rule: the native falsifier may still find a failing input; it
    # is run once per function (at most 4 functions) and only a native reproduction becomes a violation.
    if replay_prog and not relock and missing:
        seen_fn = set()
        for n in list(missing):
            fn = "/".join(n.split("/")[:2])
            if fn in seen_fn or len(seen_fn) >= 4:
                continue
            seen_fn.add(fn)
            why = [e.get("error") for e in errors if e.get("target") and fn.split("/", 1)[1].split("[")[0] in str(e.get("target"))]
            path = os.path.join(VERIF, "replays", prop_id + "__" + re.sub(r"[^A-Za-z0-9_.#-]+", "_", n) + ".json")
            rec = {"property": prop_id, "obligation": n, "kind": "locked-obligation-missing", "backend": None,
                   "function": fn, "counter_model": None, "was_in_lock": True,
                   "solver_note": "obligation discharged on the unchanged tree and is no longer generated"
                                  + (f" ({why[0]})" if why else ""), "native": None}
            with open(path, "w") as f:
                json.dump(rec, f, indent=1, default=str)
            try:
                p = subprocess.run([NATIVE_PY, os.path.join(VERIF, replay_prog), path, repo_root],
                                   capture_output=True, text=True, timeout=900, cwd=repo_root,
                                   env=dict(os.environ, PYTHONPATH=repo_root))
                rec["native"] = {"cmd": f"{NATIVE_PY} {replay_prog}", "exit": p.returncode,
                                 "stdout": p.stdout[-4000:], "stderr": p.stderr[-2000:]}
                reproduced = p.returncode == 1 and "REPRODUCED" in p.stdout
            except Exception as e:       # pragma: no cover
                rec["native"] = {"error": repr(e)}
                reproduced = False
            rec["reproduced_natively"] = reproduced
            with open(path, "w") as f:
                json.dump(rec, f, indent=1, default=str)
            if reproduced:
                violations.append((n, path, True))
    n_known = sum(1 for o in obs if o["status"] == "known")
    n_obs = len(obs) - n_known           # obligations expected to hold (known findings are listed apart)
    n_dis = sum(1 for o in obs if o["status"] == "discharged")
    stats = {}
    for r in reports:
        for k, v in (r.get("stats") or {}).items():
            stats[k] = stats.get(k, 0) + v
    assumptions = sorted({a for r in reports for a in r.get("assumptions", [])})
    trusted = list(plan.get("trusted", [])) + [
        "z3 5.1 (and cvc5 1.0.3 for z3's unknowns) are sound",
        "pyvc's encoding of the Python subset (DESIGN.md section 3, A1-A6): floats as reals, "
        "distinct parameters not aliased, opaque callees return and do not modify their arguments",
        "sidecar contracts state the property (top-level postconditions are taken from the property text)",
    ]
    functions = [{"target": r.get("target"), "file": r.get("file"), "span": r.get("span"),
                  "sha256": r.get("sha256"), "paths": r.get("paths"), "outcomes": r.get("outcomes"),
                  "obligations": len(r["obligations"]),
                  "discharged": sum(1 for o in r["obligations"] if o["status"] == "discharged"),
                  "wall_s": r.get("wall_s"), "error": r.get("error")} for r in reports]
    samples = [{"name": o["name"], "kind": o["kind"], "status": o["status"], "backend": o["backend"],
                "time_s": round(o["time_s"], 4), "line": o["lineno"]} for o in obs[:: max(1, len(obs) // 12)]][:14]
    level = getattr(mod, "LEVEL", "proof")
    cov = {
        "obligations": n_obs, "discharged": n_dis,
        "distinct_obligation_names": len(groups),
        "obligations_failing_only_inside_known_findings": n_known,
        "checker_cmd": f"./check {prop_id} --tier {tier}",
        "trusted_base": trusted,
        "functions_under_contract": functions,
        "by_backend": _count(o["backend"] for o in obs),
        "by_kind": _count(o["kind"] for o in obs),
        "solver_time_s": round(sum(o["time_s"] for o in obs), 3),
        "solver_stats": stats,
        "samples": samples,
        "not_decided": plan.get("not_decided", []),
        "known_findings_hit": sorted(known_hit),
        "undecided_obligations": undecided,
        "missing_locked_obligations": missing,
        "errors": [{"target": e.get("target"), "error": e.get("error")} for e in errors],
        "explanation": plan.get("explanation", ""),
        "bounded": plan.get("bounded", []),
        "lock_size": len(locked),
    }
    if any(o["kind"] == "bounded-native" for o in obs):
        cov["bounded"] = list(cov["bounded"]) + [
            "native-falsifier[side check]/*: BOUNDED, not a proof -- the property's native falsifier (sampled inputs run "
            "through the real code with real torch in IEEE floats) is run as a complement to the obligations above, which "
            "read floats as reals (A1) and cover only the functions under contract; one obligation, counted separately in "
            "by_kind['bounded-native']"]
    if level != "proof":
        cov["evaluations"] = n_obs
        cov["distinct_nontrivial"] = len(groups)
        cov["rule"] = "one evaluation per generated proof obligation instance; distinct = distinct obligation names"
    ev = {"property_id": prop_id, "tier": tier, "seed": seed, "level": level, "coverage": cov,
          "assumptions": assumptions + plan.get("assumptions", []),
          "wall_s": round(time.time() - t0, 2), "violations": len(violations)}
    if plan.get("controls") is not None:
        cov["negative_controls"] = plan["controls"]
    for k, v in (plan.get("coverage_extra") or {}).items():      # measured extras of extra_checks (never overrides)
        cov.setdefault(k, v)
    plan["_evidence"] = ev                # for run_engine_a (properties that merge it into their own file)
    if not os.environ.get("PYVC_NO_EVIDENCE") and not plan.get("_no_evidence_file"):
        evdir = os.environ.get("PYVC_EVIDENCE_DIR", os.path.join(VERIF, "evidence"))
        os.makedirs(evdir, exist_ok=True)
        with open(os.path.join(evdir, f"{prop_id}.json"), "w") as f:
            json.dump(ev, f, indent=1, default=str)

    for fid, n in sorted(known_hit.items()):
        k = known_defs.get(fid, {})
        print(f"KNOWN-FINDING: property={prop_id} {k.get('what', fid)} [{n}]")
    print(f"{prop_id}: {n_dis}/{n_obs} obligation instances discharged over {len(groups)} names, "
          f"{len(reports)} functions/lemmas, {ev['wall_s']} s")
    for c in crashes:
        print(f"CHECKER-CRASH in {c.get('target')}:\n{c['crash']}", file=sys.stderr)
    for e in errors:
        print(f"UNDECIDED {e.get('target')}: {e.get('error')}")
    for n in undecided:
        own = [i.get("note") for i in groups[n] if i["status"] == "unknown" and i.get("note")
               and not str(i.get("backend", "z3")).startswith(("z3", "cvc5"))]
        print(f"UNDECIDED obligation {n}: " + (str(own[0])[:300] if own else "solver returned unknown"))
    for n in missing:
        print(f"UNDECIDED locked obligation no longer generated: {n}")
    for n, path, reproduced in violations:
        tail = "" if reproduced else " no-failing-input-found"
        print(f"  failed obligation: {n}")
        print(f"VIOLATION property={prop_id} replay={path}{tail}")
    if violations:
        return 1
    if crashes:
        return 3
    if n_obs == 0:
        print("CHECKER-CRASH: zero obligations generated (vacuity guard)", file=sys.stderr)
        return 3
    if errors or undecided or missing:
        return 2
    return 0


def _count(it):
    d = {}
    for x in it:
        d[x] = d.get(x, 0) + 1
    return d


def main(argv=None):
    import argparse
    ap = argparse.ArgumentParser()
    ap.add_argument("prop")
    ap.add_argument("--tier", default=os.environ.get("VERIF_TIER", "quick"), choices=list(TIERS))
    ap.add_argument("--repo", default=os.environ.get("PYVC_REPO", "/repo"))
    ap.add_argument("--relock", action="store_true")
    ap.add_argument("--jobs", type=int, default=None)
    a = ap.parse_args(argv)
    seed = int(os.environ.get("VERIF_SEED", "0"))
    if os.path.realpath(a.repo) != os.path.realpath("/repo") and "PYVC_EVIDENCE_DIR" not in os.environ:
        # a scratch copy (negative control, seeded change): its evidence must not overwrite the
        # evidence of /repo itself
        os.environ["PYVC_EVIDENCE_DIR"] = os.path.join(VERIF, "scratch", "evidence")
    try:
        rc = run_property(a.prop, a.tier, seed, a.repo, a.relock, a.jobs)
    except Exception:
        traceback.print_exc()
        rc = 3
    sys.exit(rc)


if __name__ == "__main__":
    main()
