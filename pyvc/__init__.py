"""pyvc -- a small deductive verifier for a subset of Python.

Reads the *real* source of /repo on every run (``ast``), executes each function
under contract symbolically and modularly (call sites see callee contracts, not
bodies), and discharges one named proof obligation per postcondition / loop
invariant / callee precondition / safety condition and path with z3 (cvc5 takes
z3's unknowns).  See /verif/DESIGN.md section 2.1 and 3 for the encoding and
the trusted base.
"""
