"""Symbolic-length strings and `min(..., key=)` -- additive implementations of the registry hooks
`string_chars`, `string_join`, `min_with_key` (stubs in registry.py).  Nothing here is active
until a contracts module calls `install(reg)`.

SymStr: a string of symbolic length is a SymSeq of characters (kind "str"); a character is any
scalar term (an Int code from an uninterpreted function in the contracts that use it).
  list(s)        -> SymSeq(len, same element function, "list")      (intrinsics.b_list: SymSeq case)
  "".join(seq)   -> SymStr(len(seq), same element function)        (string_join)
  s[k], len(s)   -> element / length                                 (interp.getitem: SymSeq case)
Two SymStr are the same string iff they have the same length and the same characters; contracts
state that element-wise (`forall`), the encoding never compares two SymStr objects directly.

min(items, key=f) over a python list of candidates (concrete count, symbolic members):
the result is `select(items, w)` for a fresh index 0 <= w < len(items) (scalars: if-then-else
chains; tensors: a fresh uninterpreted tensor R with the hypotheses `w == c -> forall idx.
R[idx] == items[c][idx]`, one per candidate, triggered by reads of R -- the same for the inverse
witnesses of declared permutations; tuples: component-wise), and key(result) <= key(item) for every
item.  Python's tie-break (first minimal item) is deliberately NOT modelled: any minimal item is
allowed.
"""
from __future__ import annotations

import ast

import z3

from . import ops, tensor as T
from .values import SymSeq, Unsupported, is_boolish, is_num, is_z3, to_z3


class SymStr(SymSeq):
    """string of symbolic length: characters come from fn(index)"""

    def __init__(self, length, fn):
        super().__init__(length, fn, "str")

    def call_method(self, I, name, args, kwargs):
        raise Unsupported(f"str.{name}() on a symbolic string")

    def __repr__(self):
        return f"SymStr<{self.oid}>"


def sym_str(I, name, length=None):
    """an arbitrary string: fresh length (or the given one) and uninterpreted characters"""
    ctx = I.ctx
    if length is None:
        length = ctx.fresh(name + ".len", "int")
        ctx.assume(length >= 0)
    f = z3.Function(ctx.fresh_name(name + ".char"), z3.IntSort(), z3.IntSort())

    def fn(k):
        I.saw_read(f.name(), (k,))
        return f(to_z3(k))
    s = SymStr(length, fn)
    s.uf = f
    return s


def string_chars(I, x):
    """list(x) for a z3 String term: the sequence of its one-character substrings"""
    if isinstance(x, SymSeq):
        return SymSeq(x.length, x.fn, "list")
    if is_z3(x) and z3.is_string(x):
        return SymSeq(z3.Length(x), lambda k: z3.SubString(x, to_z3(k), 1), "list")
    raise Unsupported("list(str) of an unmodelled string")


def string_join(I, sep, items):
    if sep != "":
        raise Unsupported("str.join with a non-empty separator over symbolic items")
    if isinstance(items, SymSeq):
        return SymStr(items.length, items.fn)
    if isinstance(items, (list, tuple)):
        vals = list(items)
        return SymStr(len(vals), lambda k: vals[k] if isinstance(k, int) else _select(I, vals, to_z3(k)))
    raise Unsupported("str.join of unmodelled items")


# ----------------------------------------------------------------------------------------------
def _select(I, items, w):
    """items[w] for a symbolic index w: if-then-else chains, structurally over tuples/tensors"""
    first = items[0]
    if all(is_num(x) or is_boolish(x) for x in items):
        out = items[-1]
        for j in range(len(items) - 2, -1, -1):
            out = ops.ite(w == j, items[j], out)
        return out
    if isinstance(first, (tuple, list)):
        n = len(first)
        if not all(isinstance(x, (tuple, list)) and len(x) == n for x in items):
            raise Unsupported("min(key=) over tuples of different lengths")
        return type(first)(_select(I, [x[c] for x in items], w) for c in range(n))
    if isinstance(first, T.LamTensor):
        if not all(isinstance(x, T.LamTensor) and x.ndim == first.ndim for x in items):
            raise Unsupported("min(key=) over tensors of different ranks")
        for x in items[1:]:
            for a, b in zip(first.shape, x.shape):
                if not (isinstance(a, int) and isinstance(b, int) and a == b) and not (
                        is_z3(to_z3(a)) and z3.eq(z3.simplify(to_z3(a)), z3.simplify(to_z3(b)))):
                    if not I.ctx.entails(to_z3(a) == to_z3(b)):
                        raise Unsupported("min(key=) over tensors of different shapes")

        return _select_tensor(I, list(items), w)
    raise Unsupported(f"min(key=) over items of kind {type(first).__name__}")


def _select_tensor(I, tensors, w):
    """the tensor `tensors[w]`: a fresh uninterpreted tensor R with the hypotheses
    w == c -> forall idx. R[idx] == tensors[c][idx]   (one per candidate, triggered by reads of R);
    the same for the inverse witnesses when every candidate is a declared permutation"""
    from .values import ForallV
    first = tensors[0]
    if first.ndim == 0:
        return T.LamTensor((), (lambda v: lambda: v)(_select(I, [t.fn() for t in tensors], w)), first.dtype)
    if first.ndim > 2:
        raise Unsupported("min(key=) over tensors of rank > 2")
    sort = first.dtype if first.dtype in ("int", "bool") else "real"

    def define(ts, name):
        r = I.reg.sym_tensor(I, I.ctx.fresh_name(name), first.shape, sort)
        for c, t in enumerate(ts):
            if first.ndim == 1:
                fa = ForallV((lambda c, t: lambda k: ops.b_implies(w == c, ops.equal(r.fn(k), t.fn(k))))(c, t),
                             0, first.shape[0], "k")
            else:
                fa = ForallV((lambda c, t: lambda i: ForallV(
                    lambda j: ops.b_implies(w == c, ops.equal(r.fn(i, j), t.fn(i, j))), 0, first.shape[1], "j"))(c, t),
                    0, first.shape[0], "i")
            I.add_forall(fa)
        return r
    r = define(tensors, "selected")
    if all(t.inverse is not None for t in tensors):
        r.inverse = define([t.inverse for t in tensors], "selected_inv")
        r.inverse.inverse = r
    return r


def min_with_key(I, items, key):
    ctx = I.ctx
    if ctx.speculative:
        from .paths import NeedFork
        raise NeedFork()
    if isinstance(items, SymSeq):
        raise Unsupported("min(key=) over a sequence of symbolic length")
    items = list(I.iterate(items))
    if not items:
        from .interp import RaiseSig
        raise RaiseSig("ValueError", "min() of an empty sequence", ctx.cur_line)
    keys = []
    for x in items:
        k = I.call(key, [x], {})
        if isinstance(k, T.LamTensor) and k.ndim == 0:
            k = k.fn()
        if not is_num(k):
            raise Unsupported("min(key=): key values are not numbers")
        keys.append(k)
    if len(items) == 1:
        return items[0]
    w = ctx.fresh("argmin", "int")
    ctx.assume(z3.And(w >= 0, w < len(items)))
    kw = _select(I, keys, w)
    ctx.assume(z3.And(*[to_z3(ops.compare(ast.LtE, kw, k)) for k in keys]))
    ctx.ghost.setdefault("min_with_key", []).append({"index": w, "items": items, "keys": keys, "key": kw})
    I.session.note("min(items, key=f) modelled: some item whose key is <= every item's key "
                   "(python's first-minimal tie-break not modelled)")
    return _select(I, items, w)


def install(reg):
    """activate the hooks on this registry instance (instance attributes shadow the stubs)"""
    reg.string_chars = string_chars
    reg.string_join = string_join
    reg.min_with_key = min_with_key
