"""Second-chance discharge for obligations that mix uninterpreted functions with non-linear real
arithmetic (z3's nlsat engine does not take uninterpreted functions, and its general core is weak
on non-linear arithmetic).

1. Ackermannisation: every application f(t...) of an uninterpreted function is replaced by a
   fresh constant; for two applications of the same f the congruence axiom
   (args equal => values equal) is added.  Equisatisfiable.
2. Integer relaxation: integer constants become reals (ToReal/ToInt dropped).  This only
   *weakens* the constraints' integrality, so `unsat` of the relaxation implies `unsat` of the
   original; a `sat` answer of the relaxation is NOT used (reported as unknown)."""
from __future__ import annotations

import z3

from .budget import set_budget


def _is_uf_app(e):
    return z3.is_app(e) and e.num_args() > 0 and e.decl().kind() == z3.Z3_OP_UNINTERPRETED


def ackermannize(assertions):
    cache = {}
    apps = {}            # decl name -> list of (arg tuple (already rewritten), const)
    counter = [0]

    def rw(e):
        key = e.get_id()
        if key in cache:
            return cache[key]
        if z3.is_quantifier(e):
            raise ValueError("quantifier")
        if z3.is_app(e):
            kids = [rw(c) for c in e.children()]
            if _is_uf_app(e):
                d = e.decl()
                lst = apps.setdefault(d.name(), [])
                for args, c in lst:
                    if all(a.eq(b) for a, b in zip(args, kids)):
                        cache[key] = c
                        return c
                counter[0] += 1
                c = z3.Const(f"{d.name()}@app{counter[0]}", e.sort())
                lst.append((kids, c))
                cache[key] = c
                return c
            if kids:
                try:
                    r = e.decl()(*kids)
                except Exception:
                    r = e
            else:
                r = e
            cache[key] = r
            return r
        cache[key] = e
        return e

    out = [rw(a) for a in assertions]
    cong = []
    for name, lst in apps.items():
        for i in range(len(lst)):
            for j in range(i + 1, len(lst)):
                a1, c1 = lst[i]
                a2, c2 = lst[j]
                cong.append(z3.Implies(z3.And(*[x == y for x, y in zip(a1, a2)]), c1 == c2))
    return out + cong


def relax_ints(assertions):
    cache = {}

    def rw(e):
        key = e.get_id()
        if key in cache:
            return cache[key]
        r = e
        if z3.is_app(e):
            k = e.decl().kind()
            kids = [rw(c) for c in e.children()]
            if k == z3.Z3_OP_TO_REAL:
                r = kids[0]
            elif k == z3.Z3_OP_TO_INT or k in (z3.Z3_OP_IDIV, z3.Z3_OP_MOD, z3.Z3_OP_REM):
                raise ValueError("integer-only operator")
            elif z3.is_int_value(e):
                r = z3.RealVal(e.as_long())
            elif z3.is_const(e) and e.decl().kind() == z3.Z3_OP_UNINTERPRETED and z3.is_int(e):
                r = z3.Real(e.decl().name() + "@R")
            elif kids:
                if k == z3.Z3_OP_ITE:
                    r = z3.If(kids[0], kids[1], kids[2])
                elif k == z3.Z3_OP_EQ:
                    r = kids[0] == kids[1]
                elif k == z3.Z3_OP_DISTINCT:
                    r = z3.Distinct(*kids)
                elif k == z3.Z3_OP_ADD:
                    r = sum(kids[1:], kids[0])
                elif k == z3.Z3_OP_SUB:
                    r = kids[0]
                    for c in kids[1:]:
                        r = r - c
                elif k == z3.Z3_OP_MUL:
                    r = kids[0]
                    for c in kids[1:]:
                        r = r * c
                elif k == z3.Z3_OP_UMINUS:
                    r = -kids[0]
                elif k == z3.Z3_OP_LE:
                    r = kids[0] <= kids[1]
                elif k == z3.Z3_OP_LT:
                    r = kids[0] < kids[1]
                elif k == z3.Z3_OP_GE:
                    r = kids[0] >= kids[1]
                elif k == z3.Z3_OP_GT:
                    r = kids[0] > kids[1]
                elif k == z3.Z3_OP_DIV:
                    r = kids[0] / kids[1]
                else:
                    r = e.decl()(*kids)
        cache[key] = r
        return r
    return [rw(a) for a in assertions]


def second_chance(assertions, timeout_ms):
    """'unsat' if the purified/relaxed problem is unsat, else 'unknown'."""
    try:
        pure = ackermannize(list(assertions))
        rel = relax_ints(pure)
    except Exception:
        return "unknown"
    s = z3.SolverFor("QF_NRA")
    set_budget(s, timeout_ms)
    for a in rel:
        s.add(a)
    try:
        r = s.check()
    except z3.Z3Exception:
        return "unknown"
    return "unsat" if r == z3.unsat else "unknown"


def abstract_nonlinear(assertions):
    """Replace every non-linear product / division / power by an uninterpreted function
    (commutative products with arguments in a canonical order).  This forgets arithmetic facts
    about those terms, so `unsat` of the abstraction implies `unsat` of the original; it turns
    'apply a proved lemma instance + congruence + linear arithmetic' obligations into QF_UFLIRA,
    which z3 decides."""
    cache = {}
    squares = []
    RS = z3.RealSort()
    mul2 = z3.Function("nl!mul", RS, RS, RS)
    div2 = z3.Function("nl!div", RS, RS, RS)

    def is_num(e):
        return z3.is_rational_value(e) or z3.is_int_value(e) or z3.is_algebraic_value(e)

    def real(e):
        return z3.ToReal(e) if z3.is_int(e) else e

    def rw(e):
        key = e.get_id()
        if key in cache:
            return cache[key]
        r = e
        if z3.is_quantifier(e):
            raise ValueError("quantifier")
        if z3.is_app(e) and e.num_args() > 0:
            kids = [rw(c) for c in e.children()]
            k = e.decl().kind()
            if k == z3.Z3_OP_MUL:
                nums = [c for c in kids if is_num(c)]
                rest = sorted([c for c in kids if not is_num(c)], key=lambda c: c.get_id())
                if len(rest) >= 2:
                    acc = real(rest[0])
                    for c in rest[1:]:
                        a_, b_ = acc, real(c)
                        acc = mul2(a_, b_)
                        # sound facts about a product that the abstraction keeps: sign rules,
                        # zero rule, and non-negativity of squares
                        squares.append(z3.And(
                            acc == mul2(b_, a_),
                            z3.Implies(a_ == b_, acc >= 0),
                            z3.Implies(z3.Or(a_ == 0, b_ == 0), acc == 0),
                            z3.Implies(z3.Or(z3.And(a_ > 0, b_ > 0), z3.And(a_ < 0, b_ < 0)), acc > 0),
                            z3.Implies(z3.Or(z3.And(a_ > 0, b_ < 0), z3.And(a_ < 0, b_ > 0)), acc < 0)))
                    for c in nums:
                        acc = real(c) * acc
                    r = acc if z3.is_real(e) else z3.ToInt(acc)
                else:
                    r = e.decl()(*kids)
            elif k == z3.Z3_OP_DIV and not is_num(kids[1]):
                r = div2(real(kids[0]), real(kids[1]))
            elif k == z3.Z3_OP_POWER:
                r = mul2(real(kids[0]), real(kids[1]))
            else:
                try:
                    r = e.decl()(*kids)
                except Exception:
                    r = e
        cache[key] = r
        return r
    out = [rw(a) for a in assertions]
    return out + squares


def third_chance(assertions, timeout_ms):
    try:
        ab = abstract_nonlinear(list(assertions))
    except Exception:
        return "unknown"
    s = z3.Solver()
    set_budget(s, timeout_ms)
    for a in ab:
        s.add(a)
    try:
        r = s.check()
    except z3.Z3Exception:
        return "unknown"
    return "unsat" if r == z3.unsat else "unknown"
