"""Models of builtins, math, torch and container methods (DESIGN section 3, A3/A4)."""
from __future__ import annotations

import ast
from fractions import Fraction

import z3

from . import ops, tensor as T
from .paths import NeedFork
from .values import (BoundMethod, ClassRef, CplxV, EnumV, FuncRef, Inf, ModRef, Opaque, OptV,
                     SymObj, SymSeq, Unsupported, frac_of_float, is_boolish, is_num, is_z3, to_z3)

NOEFFECT_PREFIXES = ("logging.", "builtins.print", "warnings.")


def _scalar(v):
    """0-d tensor -> its element"""
    if isinstance(v, T.LamTensor) and v.ndim == 0:
        return v.fn()
    return v


# ----------------------------------------------------------------------------
# builtins
# ----------------------------------------------------------------------------
def b_abs(I, x):
    x = _scalar(x)
    if isinstance(x, T.LamTensor):
        return T.unary(ops.absval, x)
    if isinstance(x, CplxV):
        return I.reg.cplx_abs(I, x)
    return ops.absval(x)


def _fold(f, items):
    it = list(items)
    if not it:
        raise Unsupported("min/max of an empty sequence")
    acc = it[0]
    for x in it[1:]:
        acc = f(acc, x)
    return acc


def b_min(I, *args, key=None, default=None):
    if key is not None:
        return I.reg.min_with_key(I, args[0], key)
    items = args if len(args) > 1 else I.iterate(args[0])
    return _fold(ops.minimum, [_scalar(a) for a in items])


def b_max(I, *args, key=None, default=None):
    if key is not None:
        raise Unsupported("max with key=")
    items = args if len(args) > 1 else I.iterate(args[0])
    return _fold(ops.maximum, [_scalar(a) for a in items])


def b_len(I, x):
    if isinstance(x, (list, tuple, dict, str, set, frozenset, range)):
        return len(x)
    if isinstance(x, T.LamTensor):
        if x.ndim == 0:
            raise Unsupported("len of a 0-d tensor")
        return x.shape[0]
    if isinstance(x, SymSeq):
        return x.length
    if hasattr(x, "length"):
        return x.length
    if isinstance(x, Opaque):
        if "__len__" not in x.attrs:
            n = I.ctx.fresh(f"len({x.name})", "int")
            I.ctx.assume(n >= 0)
            x.attrs["__len__"] = n
        return x.attrs["__len__"]
    raise Unsupported(f"len of {type(x).__name__}")


class RangeV:
    def __init__(self, lo, hi, step=1):
        self.lo, self.hi, self.step = lo, hi, step

    def as_symseq(self):
        """the range as a sequence of symbolic length (for comprehensions over it)"""
        lo, hi = self.lo, self.hi
        if self.step == 1:
            return SymSeq(ops.maximum(ops.sub(hi, lo), 0), lambda k: ops.add(lo, k))
        return SymSeq(ops.maximum(ops.sub(lo, hi), 0), lambda k: ops.sub(lo, k))


def b_range(I, *a):
    a = [_scalar(x) for x in a]
    if all(isinstance(x, int) for x in a):
        return range(*a)
    if len(a) == 1:
        return RangeV(0, a[0], 1)
    if len(a) == 2:
        return RangeV(a[0], a[1], 1)
    if isinstance(a[2], int) and a[2] in (1, -1):
        return RangeV(a[0], a[1], a[2])
    raise Unsupported("range with a symbolic step")


def b_sum(I, items, start=0):
    if isinstance(items, T.LamTensor):
        return t_sum(I, items)
    if isinstance(items, SymSeq):
        return I.reg.sym_sum(I, items, start)
    acc = start
    for x in I.iterate(items):
        x = _scalar(x)
        if isinstance(acc, T.LamTensor) or isinstance(x, T.LamTensor):
            acc = I.binop(ast.Add, acc, x)
        else:
            acc = ops.add(acc, x)
    return acc


def b_float(I, x=0):
    x = _scalar(x)
    if isinstance(x, str):
        if x in ("inf", "+inf", "Infinity"):
            return Inf(1)
        if x == "-inf":
            return Inf(-1)
        return Fraction(x)
    if isinstance(x, bool):
        return Fraction(int(x))
    if isinstance(x, (int, Fraction)):
        return Fraction(x)
    if isinstance(x, Inf):
        return x
    if is_z3(x):
        if z3.is_int(x):
            return z3.ToReal(x)
        if z3.is_real(x):
            return x
    if isinstance(x, Opaque):
        if "__float__" not in x.attrs:
            x.attrs["__float__"] = I.ctx.fresh(f"float({x.name})", "real")
        return x.attrs["__float__"]
    if isinstance(x, OptV):
        return b_float(I, I.unwrap_opt(x))
    raise Unsupported(f"float() of {type(x).__name__}")


def b_int(I, x=0):
    x = _scalar(x)
    if isinstance(x, bool):
        return int(x)
    if isinstance(x, int):
        return x
    if isinstance(x, Fraction):
        return int(x)
    if is_z3(x):
        if z3.is_int(x):
            return x
        if z3.is_real(x):      # truncation toward zero
            return z3.If(x >= 0, z3.ToInt(x), -z3.ToInt(-x))
        if z3.is_bool(x):
            return z3.If(x, 1, 0)
    if isinstance(x, Opaque):
        if "__int__" not in x.attrs:
            x.attrs["__int__"] = I.ctx.fresh(f"int({x.name})", "int")
        return x.attrs["__int__"]
    raise Unsupported(f"int() of {type(x).__name__}")


def b_bool(I, x=False):
    return I.truth(x)


def b_str(I, x=""):
    if isinstance(x, str):
        return x
    return "{}"


def b_tuple(I, x=()):
    if isinstance(x, SymSeq):
        return SymSeq(x.length, x.fn, "tuple")
    return tuple(I.iterate(x))


def b_list(I, x=()):
    if isinstance(x, SymSeq):
        return SymSeq(x.length, x.fn, "list")
    if is_z3(x) and z3.is_string(x):
        return I.reg.string_chars(I, x)
    if isinstance(x, T.LamTensor) and not isinstance(x.shape[0], int):
        return SymSeq(x.shape[0], lambda k: _scalar(T.getitem(x, k)), "list")
    return list(I.iterate(x))


def b_set(I, x=()):
    if hasattr(x, "as_set"):
        return x.as_set(I)
    if isinstance(x, SymSeq):
        from .symsets import SetV
        return SetV(x.length, x.fn)
    items = I.iterate(x)
    if all(isinstance(v, (str, int, Fraction)) for v in items):
        return set(items)
    return I.reg.make_set(I, items)


def b_dict(I, x=None, **kw):
    d = dict(x) if isinstance(x, dict) else {}
    d.update(kw)
    return d


def b_sorted(I, x, key=None, reverse=False):
    if hasattr(x, "sorted"):
        return x.sorted(I)
    items = I.iterate(x)
    if key is None and all(isinstance(v, (int, Fraction, str)) for v in items):
        return sorted(items, reverse=bool(reverse))
    raise Unsupported("sorted() of symbolic items")


def b_enumerate(I, x, start=0):
    if isinstance(x, (SymSeq,)) or (isinstance(x, T.LamTensor) and not isinstance(x.shape[0], int)):
        seq = b_list(I, x)
        return SymSeq(seq.length, lambda k: (ops.add(k, start), seq.fn(k)), "list")
    return [(k + start, v) for k, v in enumerate(I.iterate(x))]


def b_zip(I, *xs):
    lists = [I.iterate(x) for x in xs]
    return [tuple(t) for t in zip(*lists)]


def b_all(I, x):
    if isinstance(x, SymSeq):
        return I.reg.sym_all(I, x)
    return ops.b_and(*[I.truth(v) for v in I.iterate(x)])


def b_any(I, x):
    if isinstance(x, SymSeq):
        return I.reg.sym_any(I, x)
    return ops.b_or(*[I.truth(v) for v in I.iterate(x)])


def b_isinstance(I, x, cls):
    x = _scalar(x) if not isinstance(x, T.LamTensor) else x
    if isinstance(cls, tuple):
        return ops.b_or(*[b_isinstance(I, x, c) for c in cls])
    if isinstance(cls, Opaque):      # e.g. `StateVector | DensityMatrix`
        return I.reg.opaque_isinstance(I, x, cls)
    if isinstance(cls, ModRef):
        n = cls.dotted.split(".")[-1]
        if n == "str":
            return isinstance(x, str) or (is_z3(x) and z3.is_string(x))
        if n == "int":
            return (isinstance(x, int)) or (is_z3(x) and z3.is_int(x))
        if n == "float":
            return isinstance(x, Fraction) or (is_z3(x) and z3.is_real(x))
        if n == "bool":
            return is_boolish(x)
        if n in ("list", "tuple", "dict", "set"):
            return isinstance(x, {"list": list, "tuple": tuple, "dict": dict, "set": set}[n])
        if n == "Tensor":
            return isinstance(x, T.LamTensor)
        return I.reg.external_isinstance(I, x, cls.dotted)
    if isinstance(cls, ClassRef):
        if isinstance(x, SymObj):
            if x.module and I.repo.has_module(x.module):
                mro = I.repo.class_mro(I.repo.module(x.module), x.cls)
                return any(c.name == cls.name for _, c in mro)
            return x.cls == cls.name
        if isinstance(x, Opaque):
            return I.reg.opaque_isinstance(I, x, cls)
        return False
    raise Unsupported("isinstance with an unmodelled class")


def b_type(I, x):
    if isinstance(x, SymObj):
        m = I.repo.module(x.module)
        return ClassRef(m, x.cls)
    if isinstance(x, Opaque):
        return I.getattr(x, "__class__")
    raise Unsupported("type() of a non-object")


def b_noop(I, *a, **k):
    return None


def b_reversed(I, x):
    return list(reversed(I.iterate(x)))


def b_round(I, x, nd=None):
    raise Unsupported("round()")


def b_complex(I, re=0, im=0):
    return CplxV(re, im)


def b_hasattr(I, o, name):
    if isinstance(o, SymObj):
        return name in o.fields or I.find_class_member(o, name) is not None
    raise Unsupported("hasattr on a non-object")


def b_getattr(I, o, name, default=None):
    return I.getattr(o, name)


BUILTINS = {
    "abs": b_abs, "min": b_min, "max": b_max, "len": b_len, "range": b_range, "sum": b_sum,
    "float": b_float, "int": b_int, "bool": b_bool, "str": b_str, "tuple": b_tuple, "list": b_list,
    "set": b_set, "dict": b_dict, "sorted": b_sorted, "enumerate": b_enumerate, "zip": b_zip,
    "all": b_all, "any": b_any, "isinstance": b_isinstance, "type": b_type, "print": b_noop,
    "reversed": b_reversed, "round": b_round, "complex": b_complex, "hasattr": b_hasattr,
    "getattr": b_getattr, "frozenset": b_set,
}


# ----------------------------------------------------------------------------
# math
# ----------------------------------------------------------------------------
def m_floor(I, x):
    x = _scalar(x)
    if isinstance(x, (int, Fraction)):
        return x.__floor__()
    x = to_z3(x)
    if z3.is_int(x):
        return x
    return z3.ToInt(x)


def sqrt_term(I, x):
    """exact square root: a fresh r with r >= 0 and r*r == x (x >= 0 is the caller's duty:
    math.sqrt raises ValueError on negatives, torch.sqrt gives nan)."""
    if isinstance(x, (int, Fraction)):
        f = Fraction(x)
        if f >= 0:
            from math import isqrt
            n, d = f.numerator, f.denominator
            if isqrt(n) ** 2 == n and isqrt(d) ** 2 == d:
                return Fraction(isqrt(n), isqrt(d))
    key = ("sqrt", str(x))
    memo = I.ctx.ghost.setdefault("sqrt_memo", {})
    if key in memo:
        return memo[key]
    r = I.ctx.fresh("sqrt", "real")
    xz = to_z3(x)
    if z3.is_int(xz):
        xz = z3.ToReal(xz)
    I.ctx.assume(z3.And(r >= 0, r * r == xz))
    memo[key] = r
    return r


def m_sqrt(I, x):
    x = _scalar(x)
    if isinstance(x, T.LamTensor):
        raise Unsupported("math.sqrt of a tensor")
    neg = ops.compare(ast.Lt, x, 0)
    if I.ctx.speculative:
        if not I.ctx.entails(ops.b_not(neg) if not isinstance(neg, bool) else (not neg)):
            raise NeedFork()
    elif I.ctx.branch(neg):
        from .interp import RaiseSig
        raise RaiseSig("ValueError", "math domain error", I.ctx.cur_line)
    return sqrt_term(I, x)


def m_isclose(I, a, b, rel_tol=Fraction(1, 10**9), abs_tol=0):
    a, b = _scalar(a), _scalar(b)
    d = ops.absval(ops.sub(a, b))
    bound = ops.maximum(ops.mul(rel_tol, ops.maximum(ops.absval(a), ops.absval(b))), abs_tol)
    return ops.compare(ast.LtE, d, bound)


MATH = {"floor": m_floor, "sqrt": m_sqrt, "isclose": m_isclose}


# ----------------------------------------------------------------------------
# torch
# ----------------------------------------------------------------------------
def t_as_tensor(I, data, dtype=None, device=None):
    if isinstance(data, T.LamTensor):
        return data
    if isinstance(data, SymSeq):
        return T.LamTensor((data.length,), lambda k: data.fn(k), "real")
    if isinstance(data, (list, tuple)):
        def conv(d):
            if isinstance(d, (list, tuple)):
                return [conv(x) for x in d]
            return _scalar(d)
        nested = conv(data)
        flat = nested
        while isinstance(flat, list) and flat:
            flat = flat[0]
        dt = "bool" if is_boolish(flat) else ("complex" if isinstance(flat, CplxV) else "real")
        return T.from_nested(nested, dt)
    if is_num(data) or isinstance(data, CplxV) or is_boolish(data):
        d = data
        return T.LamTensor((), lambda: d, "complex" if isinstance(d, CplxV) else "real")
    if isinstance(data, Opaque):
        return I.reg.opaque_tensor(I, data)
    raise Unsupported(f"torch.as_tensor of {type(data).__name__}")


def t_zeros(I, *shape, dtype=None, device=None):
    if len(shape) == 1 and isinstance(shape[0], (tuple, list)):
        shape = tuple(shape[0])
    shape = tuple(_scalar(s) for s in shape)
    zero = CplxV(0, 0) if _is_complex_dtype(dtype) else Fraction(0)
    return T.const_tensor(shape, zero, "complex" if _is_complex_dtype(dtype) else "real")


def t_ones(I, *shape, dtype=None, device=None):
    if len(shape) == 1 and isinstance(shape[0], (tuple, list)):
        shape = tuple(shape[0])
    one = CplxV(1, 0) if _is_complex_dtype(dtype) else Fraction(1)
    return T.const_tensor(tuple(shape), one, "complex" if _is_complex_dtype(dtype) else "real")


def _is_complex_dtype(dt):
    return isinstance(dt, ModRef) and "complex" in dt.dotted


def t_zeros_like(I, x, **k):
    return T.const_tensor(x.shape, CplxV(0, 0) if x.dtype == "complex" else Fraction(0), x.dtype)


def t_ones_like(I, x, **k):
    return T.const_tensor(x.shape, CplxV(1, 0) if x.dtype == "complex" else Fraction(1), x.dtype)


def t_empty_like(I, x, **k):
    f = z3.Function(I.ctx.fresh_name("empty"), *([z3.IntSort()] * x.ndim),
                    z3.IntSort() if x.dtype == "int" else z3.RealSort())
    return T.LamTensor(x.shape, lambda *i: f(*[to_z3(k) for k in i]), x.dtype)


def t_arange(I, *a, dtype=None, device=None):
    a = [_scalar(x) for x in a]
    if len(a) == 1:
        n = a[0]
        if is_z3(n) and z3.is_real(n):
            # torch.arange(real end): ceil(end) points 0,1,..  (end is assumed integral by caller)
            n = I.reg.ceil_int(I, n)
        elif isinstance(n, Fraction):
            n = -((-n.numerator) // n.denominator)
        t = T.arange(n)
        if isinstance(dtype, ModRef) and "float" in dtype.dotted:
            t = T.unary(lambda v: b_float(I, v), t, "real")
        return t
    if len(a) == 2:
        return T.LamTensor((ops.sub(a[1], a[0]),), lambda i: ops.add(a[0], i), "int")
    raise Unsupported("torch.arange with a step")


def t_eye(I, n, m=None, **k):
    return T.eye(n, m)


def t_where(I, c, a=None, b=None):
    if a is None:
        raise Unsupported("single-argument torch.where")
    return T.where(c, _scalar(a) if not isinstance(a, T.LamTensor) or a.ndim == 0 else a,
                   _scalar(b) if not isinstance(b, T.LamTensor) or b.ndim == 0 else b, I.ctx)


def t_abs(I, x):
    return b_abs(I, x)


def t_stack(I, ts, dim=0):
    return T.stack(I.iterate(ts), dim, I.ctx)


def t_all(I, x):
    if isinstance(x, T.LamTensor):
        if x.ndim == 0:
            return x.fn()
        if T.is_conc_shape(x.shape):
            flat = _flatten(T.materialize(x))
            return ops.b_and(*[I.truth(v) for v in flat])
        return I.reg.tensor_all(I, x)
    return I.truth(x)


def t_any(I, x):
    if isinstance(x, T.LamTensor) and T.is_conc_shape(x.shape):
        return ops.b_or(*[I.truth(v) for v in _flatten(T.materialize(x))])
    if isinstance(x, T.LamTensor) and x.ndim == 1:
        return I.reg.tensor_any(I, x)
    raise Unsupported("torch.any over a symbolic shape")


def _flatten(d):
    if isinstance(d, list):
        out = []
        for x in d:
            out.extend(_flatten(x))
        return out
    return [d]


def t_sum(I, x, dim=None):
    if isinstance(x, T.LamTensor) and T.is_conc_shape(x.shape) and dim is None:
        acc = 0
        for v in _flatten(T.materialize(x)):
            acc = ops.add(acc, v)
        return T.LamTensor((), lambda: acc, x.dtype)
    return I.reg.tensor_sum(I, x, dim)


def t_equal(I, a, b):
    if not (isinstance(a, T.LamTensor) and isinstance(b, T.LamTensor)):
        raise Unsupported("torch.equal of non-tensors")
    if a.ndim != b.ndim:
        return False
    same_shape = ops.b_and(*[T.dim_eq(x, y) for x, y in zip(a.shape, b.shape)])
    if same_shape is False:
        return False
    if T.is_conc_shape(a.shape):
        return ops.b_and(same_shape, *[ops.equal(x, y) for x, y in
                                       zip(_flatten(T.materialize(a)), _flatten(T.materialize(b)))])
    return I.reg.tensor_equal(I, a, b, same_shape)


def t_logical_not(I, x):
    return T.unary(lambda v: ops.b_not(I.truth(v)), x, "bool")


def t_is_complex(I, x):
    return isinstance(x, T.LamTensor) and x.dtype == "complex"


def t_flip(I, x, dims):
    r = T.flip(x, list(dims))
    if T.is_conc_shape(r.shape) and r.ndim > 0:
        # torch.flip returns a COPY (never a view): its elements are read now, so a later in-place
        # write to the base of `x` (t[:2, :2] = torch.flip(t[:2, :2], ...)) does not reach it
        return T.freeze(r)
    return r


def t_tensor(I, data, dtype=None, device=None):
    return t_as_tensor(I, data, dtype=dtype)


def t_max(I, x):
    if isinstance(x, T.LamTensor) and T.is_conc_shape(x.shape):
        return T.LamTensor((), (lambda v: lambda: v)(_fold(ops.maximum, _flatten(T.materialize(x)))), x.dtype)
    return I.reg.tensor_max(I, x)


def t_sqrt(I, x):
    x = _scalar(x)
    if isinstance(x, T.LamTensor):
        return T.unary(lambda v: sqrt_term(I, v), x)
    return sqrt_term(I, x)


def t_hardshrink(I, x, lambd=Fraction(1, 2)):
    """torch.nn.functional.hardshrink: x if |x| > lambd else 0 (element-wise, out of place)"""
    lam = _scalar(lambd)
    return T.unary(lambda v: ops.ite(ops.compare(ast.Gt, ops.absval(v), lam), v, Fraction(0)), x)


def t_clamp(I, x, min=None, max=None):
    return tensor_method(I, x, "clamp", [min, max], {})


def t_clone(I, x, **k):
    return x.copy() if isinstance(x, T.LamTensor) else x


def t_relu(I, x):
    return T.unary(lambda v: ops.maximum(v, Fraction(0)), x)


TORCH_DOTTED = {
    "torch.nn.functional.hardshrink": t_hardshrink,
    "torch.nn.functional.relu": t_relu,
    "torch.clamp": t_clamp, "torch.clip": t_clamp, "torch.clone": t_clone, "torch.relu": t_relu,
}


TORCH = {
    "as_tensor": t_as_tensor, "tensor": t_tensor, "zeros": t_zeros, "ones": t_ones,
    "zeros_like": t_zeros_like, "ones_like": t_ones_like, "empty_like": t_empty_like, "arange": t_arange, "eye": t_eye,
    "where": t_where, "abs": t_abs, "stack": t_stack, "all": t_all, "any": t_any, "sum": t_sum,
    "equal": t_equal, "logical_not": t_logical_not, "is_complex": t_is_complex, "flip": t_flip,
    "max": t_max, "sqrt": t_sqrt,
}


# ----------------------------------------------------------------------------
# tensor attributes / methods
# ----------------------------------------------------------------------------
def tensor_attr(I, t: T.LamTensor, name: str):
    from .values import BuiltinMethod
    if name == "shape":
        return tuple(t.shape)
    if name == "ndim":
        return t.ndim
    if name == "real":
        if t.dtype == "complex":
            return T.unary(lambda v: CplxV.of(v).re, t, "real")
        return t
    if name == "imag":
        return T.unary(lambda v: CplxV.of(v).im, t, "real")
    if name in ("dtype", "device"):
        return ModRef(f"torch.{name}_of.{t.dtype}")
    if name == "T":
        return T.transpose(t)
    if name == "mH":
        return T.conj(T.transpose(t))
    if name in ("is_cuda",):
        return False
    if name == "is_cpu":
        return True
    if name == "requires_grad":
        return t.requires_grad
    return BuiltinMethod(t, name)


def tensor_method(I, t: T.LamTensor, name: str, args, kwargs):
    if name == "numel":
        return t.numel()
    if name in ("item",):
        if t.ndim != 0:
            if all(isinstance(s, int) and s == 1 for s in t.shape):
                return t.fn(*([0] * t.ndim))
            raise Unsupported(".item() on a non-scalar tensor")
        return t.fn()
    if name in ("to", "cpu", "contiguous", "detach", "double", "float", "requires_grad_"):
        if name == "to" and args and _is_complex_dtype(args[0]) and t.dtype != "complex":
            return T.unary(lambda v: CplxV.of(v), t, "complex")
        return t
    if name == "clone":
        return t.copy()
    if name == "fill_":
        v = _scalar(args[0])
        t.fn = lambda *i: v
        t.version += 1
        I.ctx.log_write(("tensor", t.tid), "*")
        return t
    if name == "unbind":
        return T.unbind(t, args[0] if args else kwargs.get("dim", 0))
    if name == "clamp":
        lo = _scalar(args[0]) if args else kwargs.get("min")
        hi = _scalar(args[1]) if len(args) > 1 else kwargs.get("max")

        def cl(v):
            if lo is not None:
                v = ops.maximum(v, lo)
            if hi is not None:
                v = ops.minimum(v, hi)
            return v
        return T.unary(cl, t)
    if name == "tolist":
        if t.ndim == 0:
            return t.fn()
        if T.is_conc_shape(t.shape):
            return T.materialize(t)
        if t.ndim == 1:
            return SymSeq(t.shape[0], lambda k: t.fn(k), "list")
        raise Unsupported("tolist of a symbolic-shape matrix")
    if name == "abs":
        return T.unary(ops.absval, t)
    if name == "conj" or name == "conj_physical":
        return T.conj(t)
    if name == "dim":
        return t.ndim
    if name == "size":
        return t.shape[args[0]] if args else tuple(t.shape)
    if name == "sum":
        return t_sum(I, t, *args, **kwargs)
    if name == "any":
        return t_any(I, t)
    if name == "all":
        return t_all(I, t)
    if name == "max":
        return t_max(I, t)
    if name == "is_floating_point":
        return t.dtype == "real"
    if name == "transpose" and t.ndim == 2:
        return T.transpose(t)
    if name == "view" or name == "reshape":
        shp = args[0] if len(args) == 1 and isinstance(args[0], (tuple, list)) else args
        return I.reg.tensor_view(I, t, tuple(shp))
    if name == "norm":
        return I.reg.tensor_norm(I, t)
    raise Unsupported(f"tensor method .{name}()")


# ----------------------------------------------------------------------------
# container methods
# ----------------------------------------------------------------------------
def container_method(I, obj, name, args, kwargs):
    ctx = I.ctx
    mutating = {"append", "pop", "extend", "update", "add", "clear", "insert", "remove", "sort"}
    if name in mutating and ctx.speculative:
        raise NeedFork()
    if isinstance(obj, list):
        if name == "append":
            obj.append(args[0])
            ctx.log_write(("list", id(obj)), "*")
            return None
        if name == "pop":
            ctx.log_write(("list", id(obj)), "*")
            if not obj:
                from .interp import RaiseSig
                raise RaiseSig("IndexError", "pop from empty list", ctx.cur_line)
            return obj.pop(*args)
        if name == "extend":
            obj.extend(I.iterate(args[0]))
            ctx.log_write(("list", id(obj)), "*")
            return None
        if name == "copy":
            return list(obj)
        if name == "index":
            for k, v in enumerate(obj):
                if ops.equal(v, args[0]) is True:
                    return k
            raise Unsupported("list.index with symbolic comparison")
        if name == "insert":
            obj.insert(args[0], args[1])
            return None
    if isinstance(obj, tuple):
        if name == "index":
            for k, v in enumerate(obj):
                if ops.equal(v, args[0]) is True:
                    return k
    if isinstance(obj, dict):
        if name == "items":
            return [(k, v) for k, v in obj.items()]
        if name == "keys":
            return list(obj.keys())
        if name == "values":
            return list(obj.values())
        if name == "get":
            return obj.get(args[0], args[1] if len(args) > 1 else None)
        if name == "copy":
            return dict(obj)
        if name == "update":
            obj.update(args[0] if args else {}, **kwargs)
            ctx.log_write(("dict", id(obj)), "*")
            return None
        if name == "pop":
            ctx.log_write(("dict", id(obj)), "*")
            return obj.pop(*args)
    if isinstance(obj, (set, frozenset)):
        if name == "difference":
            return set(obj) - set(args[0])
        if name == "union":
            return set(obj) | set(args[0])
        if name == "add":
            obj.add(args[0])
            return None
        if name == "issubset":
            return set(obj) <= set(args[0])
    if isinstance(obj, str):
        if name == "join":
            items = I.iterate(args[0]) if not isinstance(args[0], SymSeq) else None
            if items is None:
                return I.reg.string_join(I, obj, args[0])
            if all(isinstance(x, str) for x in items):
                return obj.join(items)
            return I.reg.string_join(I, obj, items)
        if name in ("format", "lower", "upper", "strip"):
            return getattr(obj, name)(*[a for a in args if isinstance(a, str)]) if name != "format" else obj
        if name == "startswith":
            return obj.startswith(args[0])
    if is_num(obj) or is_boolish(obj):
        if name == "item":
            return obj
        if name in ("real",):
            return obj
    if isinstance(obj, SymSeq):
        if name == "append":
            return I.reg.symseq_append(I, obj, args[0])
    if hasattr(obj, "call_method"):
        return obj.call_method(I, name, args, kwargs)
    raise Unsupported(f"method .{name}() on {type(obj).__name__}")
